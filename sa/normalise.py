"""Behaviour-preserving normal forms applied to every module when it is loaded.

The rules look at the shape of the code; these rewrites remove shape differences that cannot change behaviour, so a
rule never depends on them (each was found by the benign-transformation sweeps, tools/benign_sweep.py):

  docstrings        dropped (functions, classes)
  logging           expression statements `logger.x(...)` / `logging.x(...)` / `log.x(...)` / `warnings.warn(...)` dropped
                    when their arguments are free of calls other than str()/repr()/len() (so nothing of the program runs inside)
  else-after-exit   `if c: ...; return/raise/continue/break  else: REST`  ->  `if c: ...exit`  followed by REST
  temp-return       `x = E; return x`  ->  `return E`
  local annotation  `x: T = E` inside a function  ->  `x = E`   (the annotation is kept in `fn._local_annotations` for the
                    call graph's receiver typing); bare `x: T` declarations inside functions are dropped

A rewrite never deletes, reorders or duplicates an evaluated expression."""
from __future__ import annotations

import ast
from typing import Dict, List

LOG_ROOTS = {"logger", "logging", "log", "LOGGER", "_logger", "_log"}
_PURE = {"str", "repr", "len", "type"}
EXITS = (ast.Return, ast.Raise, ast.Continue, ast.Break)


def _is_log_stmt(st: ast.stmt) -> bool:
    if not (isinstance(st, ast.Expr) and isinstance(st.value, ast.Call)):
        return False
    f = st.value.func
    root = f
    while isinstance(root, ast.Attribute):
        root = root.value
    if not (isinstance(f, ast.Attribute) and isinstance(root, ast.Name)):
        return False
    ok = root.id in LOG_ROOTS or (root.id == "warnings" and f.attr == "warn")
    if not ok:
        return False
    for a in list(st.value.args) + [k.value for k in st.value.keywords]:
        for n in ast.walk(a):
            if isinstance(n, ast.Call) and not (isinstance(n.func, ast.Name) and n.func.id in _PURE):
                return False
            if isinstance(n, (ast.Await, ast.Yield, ast.YieldFrom, ast.NamedExpr)):
                return False
    return True


def _blocks(node: ast.AST):
    for fld in ("body", "orelse", "finalbody"):
        b = getattr(node, fld, None)
        if isinstance(b, list) and b and isinstance(b[0], ast.stmt):
            yield fld, b
    if isinstance(node, ast.Try):
        for h in node.handlers:
            yield "handler", h.body
    if hasattr(ast, "Match") and isinstance(node, ast.Match):
        for c in node.cases:
            yield "case", c.body


# --------------------------------------------------------------------------- accumulation loop -> comprehension
_EMPTY = {"list": ast.ListComp, "set": ast.SetComp, "dict": ast.DictComp}


def _empty_kind(v: ast.expr):
    if isinstance(v, ast.List) and not v.elts:
        return "list"
    if isinstance(v, ast.Dict) and not v.keys:
        return "dict"
    if isinstance(v, ast.Call) and isinstance(v.func, ast.Name) and not v.args and not v.keywords and v.func.id in ("list", "dict", "set"):
        return v.func.id
    return None


def _mentions(node: ast.AST, name: str) -> bool:
    return any(isinstance(n, ast.Name) and n.id == name for n in ast.walk(node))


def _accumulation(loop: ast.For, name: str, kind: str):
    """(element | (key, value), generators) when the loop only accumulates into `name`, else None"""
    gens = []
    cur: ast.stmt = loop
    while True:
        if isinstance(cur, (ast.For,)) and not cur.orelse and len(cur.body) == 1:
            if _mentions(cur.iter, name) or _mentions(cur.target, name):
                return None
            gens.append(ast.comprehension(target=cur.target, iter=cur.iter, ifs=[], is_async=0))
            cur = cur.body[0]
        elif isinstance(cur, ast.If) and not cur.orelse and len(cur.body) == 1 and gens:
            if _mentions(cur.test, name):
                return None
            gens[-1].ifs.append(cur.test)
            cur = cur.body[0]
        else:
            break
    if not gens:
        return None
    # `if c: X[k] = a else: X[k] = b` / `if c: X.append(a) else: X.append(b)`  (a desugared conditional expression)
    if isinstance(cur, ast.If) and len(cur.body) == 1 and len(cur.orelse) == 1 and not _mentions(cur.test, name):
        a, b = cur.body[0], cur.orelse[0]
        if isinstance(a, ast.Assign) and isinstance(b, ast.Assign) and len(a.targets) == 1 and len(b.targets) == 1 and ast.dump(a.targets[0]) == ast.dump(b.targets[0]):
            cur = ast.copy_location(ast.Assign(targets=a.targets, value=ast.IfExp(test=cur.test, body=a.value, orelse=b.value), type_comment=None), cur)
        elif isinstance(a, ast.Expr) and isinstance(b, ast.Expr) and isinstance(a.value, ast.Call) and isinstance(b.value, ast.Call) and ast.dump(a.value.func) == ast.dump(b.value.func) \
                and len(a.value.args) == 1 and len(b.value.args) == 1 and not a.value.keywords and not b.value.keywords:
            cur = ast.copy_location(ast.Expr(value=ast.Call(func=a.value.func, args=[ast.IfExp(test=cur.test, body=a.value.args[0], orelse=b.value.args[0])], keywords=[])), cur)
    if kind in ("list", "set") and isinstance(cur, ast.Expr) and isinstance(cur.value, ast.Call) and isinstance(cur.value.func, ast.Attribute) \
            and isinstance(cur.value.func.value, ast.Name) and cur.value.func.value.id == name and len(cur.value.args) == 1 and not cur.value.keywords \
            and cur.value.func.attr == ("append" if kind == "list" else "add") and not _mentions(cur.value.args[0], name) and not isinstance(cur.value.args[0], ast.Starred):
        return cur.value.args[0], gens
    # X.extend(E) / X.update(E): one more generator over E
    if kind in ("list", "set") and isinstance(cur, ast.Expr) and isinstance(cur.value, ast.Call) and isinstance(cur.value.func, ast.Attribute) \
            and isinstance(cur.value.func.value, ast.Name) and cur.value.func.value.id == name and len(cur.value.args) == 1 and not cur.value.keywords \
            and cur.value.func.attr == ("extend" if kind == "list" else "update") and not _mentions(cur.value.args[0], name) and not isinstance(cur.value.args[0], ast.Starred):
        var = "each_"
        gens.append(ast.comprehension(target=ast.Name(id=var, ctx=ast.Store()), iter=cur.value.args[0], ifs=[], is_async=0))
        return ast.Name(id=var, ctx=ast.Load()), gens
    if kind == "dict" and isinstance(cur, ast.Assign) and len(cur.targets) == 1 and isinstance(cur.targets[0], ast.Subscript) and isinstance(cur.targets[0].value, ast.Name) \
            and cur.targets[0].value.id == name and not _mentions(cur.targets[0].slice, name) and not _mentions(cur.value, name):
        return (cur.targets[0].slice, cur.value), gens
    return None


def _loop_targets(gens) -> set:
    return {n.id for g in gens for n in ast.walk(g.target) if isinstance(n, ast.Name)}


def loops_to_comprehensions(fn, stats: Dict[str, int]) -> None:
    """X = [] ; for t in it: [if c:] X.append(e)   ->   X = [e for t in it if c]     (also set.add, dict[k] = v, nested for).
    Only when nothing between the initialisation and the loop mentions X and the loop variables are not read afterwards."""
    def rec(node):
        for fld, b in list(_blocks(node)):
            i = 0
            while i < len(b):
                st = b[i]
                if isinstance(st, ast.For) and not st.orelse:
                    done = False
                    for j in range(i - 1, -1, -1):
                        prev = b[j]
                        if isinstance(prev, ast.Assign) and len(prev.targets) == 1 and isinstance(prev.targets[0], ast.Name):
                            name = prev.targets[0].id
                            kind = _empty_kind(prev.value)
                            if kind is None and isinstance(prev.value, (ast.ListComp, ast.List)) and _mentions(st, name):
                                # the list already holds something: the accumulating loop becomes `X.extend(<generator>)`
                                acc = _accumulation(st, name, "list")
                                if acc is not None:
                                    elt, gens = acc
                                    tv = _loop_targets(gens)
                                    # a private helper called for its effect must stay a statement-level call (it may be a new helper that
                                    # is inlined back afterwards): leave such loops alone
                                    private_call = any(isinstance(c_, ast.Call) and ((isinstance(c_.func, ast.Name) and c_.func.id.startswith("_")) or
                                                                                    (isinstance(c_.func, ast.Attribute) and c_.func.attr.startswith("_") and isinstance(c_.func.value, ast.Name)
                                                                                     and c_.func.value.id in ("self", "cls"))) for c_ in ast.walk(elt))
                                    if not private_call and not any(isinstance(n, ast.Name) and n.id in tv and isinstance(n.ctx, ast.Load) for x in b[i + 1:] for n in ast.walk(x)):
                                        call = ast.Expr(value=ast.Call(func=ast.Attribute(value=ast.Name(id=name, ctx=ast.Load()), attr="extend", ctx=ast.Load()),
                                                                       args=[ast.GeneratorExp(elt=elt, generators=gens)], keywords=[]))
                                        ast.copy_location(call, st)
                                        ast.fix_missing_locations(call)
                                        b[i] = call
                                        stats["loop2comp"] += 1
                                        done = True
                                break
                            if kind and not any(_mentions(x, name) for x in b[j + 1:i]):
                                acc = _accumulation(st, name, kind)
                                if acc is not None:
                                    elt, gens = acc
                                    later = b[i + 1:]
                                    tv = _loop_targets(gens)
                                    used_later = any(isinstance(n, ast.Name) and n.id in tv and isinstance(n.ctx, ast.Load) for x in later for n in ast.walk(x))
                                    if not used_later:
                                        if kind == "dict":
                                            comp = ast.DictComp(key=elt[0], value=elt[1], generators=gens)
                                        elif kind == "set":
                                            comp = ast.SetComp(elt=elt, generators=gens)
                                        else:
                                            comp = ast.ListComp(elt=elt, generators=gens)
                                        new = ast.Assign(targets=[prev.targets[0]], value=comp, type_comment=None)
                                        ast.copy_location(new, st)
                                        ast.copy_location(comp, st)
                                        ast.fix_missing_locations(new)
                                        b[i] = new
                                        del b[j]
                                        stats["loop2comp"] += 1
                                        done = True
                                        i -= 1
                                break
                        if any(isinstance(n, ast.Name) for n in ast.walk(prev)) and False:
                            break
                    if done:
                        i += 1
                        continue
                i += 1
        for c in ast.iter_child_nodes(node):
            if isinstance(c, (ast.stmt, ast.ExceptHandler)) and not isinstance(c, ast.ClassDef):
                rec(c)
    rec(fn)


# --------------------------------------------------------------------------- in-place set update -> rebinding
def _fresh_set(v: ast.expr) -> bool:
    if isinstance(v, (ast.Set, ast.SetComp)):
        return True
    if isinstance(v, ast.Call) and isinstance(v.func, ast.Name) and v.func.id == "set":
        return True
    if isinstance(v, ast.Call) and isinstance(v.func, ast.Attribute) and v.func.attr in ("copy", "union", "difference", "intersection") :
        return True
    if isinstance(v, ast.BinOp) and isinstance(v.op, (ast.BitOr, ast.Sub, ast.BitAnd)) and (_fresh_set(v.left) or _fresh_set(v.right)):
        return True
    return False


def set_updates_to_rebinding(fn, stats: Dict[str, int]) -> None:
    """for a local X first bound to a fresh set in this function and never aliased: `X.update(Y)` -> `X = X | Y`,
    `X.add(e)` -> `X = X | {e}` (statements of the function itself, not of nested functions)"""
    first: Dict[str, ast.expr] = {}
    aliased = set()
    nested_names = set()
    for n in ast.walk(fn):
        if n is not fn and isinstance(n, (ast.FunctionDef, ast.AsyncFunctionDef, ast.Lambda)):
            nested_names |= {x.id for x in ast.walk(n) if isinstance(x, ast.Name)}
    params = {a.arg for a in fn.args.posonlyargs + fn.args.args + fn.args.kwonlyargs}

    def scan(body):
        for st in body:
            if isinstance(st, (ast.FunctionDef, ast.AsyncFunctionDef, ast.ClassDef)):
                continue
            if isinstance(st, ast.Assign) and len(st.targets) == 1 and isinstance(st.targets[0], ast.Name):
                first.setdefault(st.targets[0].id, st.value)
            if isinstance(st, ast.Assign) and isinstance(st.value, ast.Name):
                aliased.add(st.value.id)
            for fld, b in _blocks(st):
                scan(b)
    scan(fn.body)
    cands = {k for k, v in first.items() if _fresh_set(v) and k not in aliased and k not in nested_names and k not in params}
    if not cands:
        return

    def rewrite(body):
        for i, st in enumerate(body):
            if isinstance(st, (ast.FunctionDef, ast.AsyncFunctionDef, ast.ClassDef)):
                continue
            if isinstance(st, ast.Expr) and isinstance(st.value, ast.Call) and isinstance(st.value.func, ast.Attribute) and isinstance(st.value.func.value, ast.Name) \
                    and st.value.func.value.id in cands and st.value.func.attr in ("update", "add") and len(st.value.args) == 1 and not st.value.keywords:
                x = st.value.func.value.id
                arg = st.value.args[0]
                rhs = arg if st.value.func.attr == "update" else ast.Set(elts=[arg])
                new = ast.Assign(targets=[ast.Name(id=x, ctx=ast.Store())], value=ast.BinOp(left=ast.Name(id=x, ctx=ast.Load()), op=ast.BitOr(), right=rhs), type_comment=None)
                ast.copy_location(new, st)
                ast.fix_missing_locations(new)
                body[i] = new
                stats["setupdate"] += 1
                continue
            for fld, b in _blocks(st):
                rewrite(b)
    rewrite(fn.body)


def _sink_return(st: ast.If, r: str):
    """if every leaf branch of the if/elif/else chain ends with `r = E` (and r is not otherwise used in the chain after
    being assigned), return the chain with `return E` at the leaves; else None"""
    import copy as _copy

    def conv(body):
        if not body:
            return None
        last = body[-1]
        if isinstance(last, ast.Assign) and len(last.targets) == 1 and isinstance(last.targets[0], ast.Name) and last.targets[0].id == r:
            if any(_mentions(x, r) for x in body[:-1]) or _mentions(last.value, r):
                return None
            ret = ast.Return(value=last.value)
            ast.copy_location(ret, last)
            return body[:-1] + [ret]
        if isinstance(last, ast.If) and last.orelse:
            if any(_mentions(x, r) for x in body[:-1]) or _mentions(last.test, r):
                return None
            a, b = conv(last.body), conv(last.orelse)
            if a is None or b is None:
                return None
            n = ast.If(test=last.test, body=a, orelse=b)
            ast.copy_location(n, last)
            return body[:-1] + [n]
        if isinstance(last, (ast.Return, ast.Raise)):
            return body if not any(_mentions(x, r) for x in body) else None
        return None
    if not st.orelse or _mentions(st.test, r):
        return None
    res = conv([st])
    return res[0] if res else None


def _own_returns(fn):
    stack = list(fn.body)
    while stack:
        n = stack.pop()
        if isinstance(n, (ast.FunctionDef, ast.AsyncFunctionDef, ast.ClassDef, ast.Lambda)):
            continue
        if isinstance(n, ast.Return):
            yield n
        stack.extend(ast.iter_child_nodes(n))


def _atomic(e: ast.expr) -> bool:
    if isinstance(e, (ast.Name, ast.Constant)):
        return True
    if isinstance(e, ast.Attribute):
        return _atomic(e.value)
    return False


def _rewrite_block(body: List[ast.stmt], in_function: bool, stats: Dict[str, int], fn, loop_body: bool = False, fn_body: bool = False) -> List[ast.stmt]:
    out: List[ast.stmt] = []
    i = 0
    body = list(body)
    while i < len(body):
        st = body[i]
        if in_function and _is_log_stmt(st):
            stats["logging"] += 1
            i += 1
            continue
        if in_function and isinstance(st, ast.AnnAssign) and isinstance(st.target, ast.Name):
            if fn is not None:
                fn._local_annotations[st.target.id] = st.annotation
            if st.value is None:
                stats["annotation"] += 1
                i += 1
                continue
            new = ast.Assign(targets=[st.target], value=st.value, type_comment=None)
            ast.copy_location(new, st)
            stats["annotation"] += 1
            st = new
        if in_function and isinstance(st, ast.Assign) and len(st.targets) == 1 and isinstance(st.targets[0], ast.Name) and isinstance(st.value, ast.Dict) and len(st.value.keys) >= 2 \
                and st.value.keys[0] is None and isinstance(st.value.values[0], ast.Name) and all(k is not None for k in st.value.keys[1:]) \
                and not any(_mentions(v, st.targets[0].id) for v in st.value.values):
            # `X = {**Y, k: v}`  ->  `X = Y.copy(); X[k] = v`
            X = st.targets[0].id
            first = ast.Assign(targets=[st.targets[0]], value=ast.Call(func=ast.Attribute(value=st.value.values[0], attr="copy", ctx=ast.Load()), args=[], keywords=[]), type_comment=None)
            new_sts = [first]
            for k, v in zip(st.value.keys[1:], st.value.values[1:]):
                new_sts.append(ast.Assign(targets=[ast.Subscript(value=ast.Name(id=X, ctx=ast.Load()), slice=k, ctx=ast.Store())], value=v, type_comment=None))
            for n_ in new_sts:
                ast.copy_location(n_, st)
                ast.fix_missing_locations(n_)
            body[i:i + 1] = new_sts
            stats["dictsplat"] += 1
            continue
        if in_function and isinstance(st, ast.For) and not st.orelse and isinstance(st.target, ast.Name) and isinstance(st.iter, (ast.Tuple, ast.List)) and 0 < len(st.iter.elts) <= 10 \
                and all(_atomic(e) for e in st.iter.elts) and not any(isinstance(n, (ast.Break, ast.Continue)) for x in st.body for n in ast.walk(x)) \
                and not any(isinstance(n, ast.Name) and n.id == st.target.id and isinstance(n.ctx, (ast.Store, ast.Del)) for x in st.body for n in ast.walk(x)) \
                and not any(isinstance(n, ast.Name) and n.id == st.target.id for x in body[i + 1:] for n in ast.walk(x)) and sum(1 for x in st.body for _ in ast.walk(x)) <= 60:
            # `for x in (a, b, c): BODY`  ->  BODY[a]; BODY[b]; BODY[c]
            import copy as _copy
            var = st.target.id
            unrolled = []
            for e in st.iter.elts:
                class _S(ast.NodeTransformer):
                    def visit_Name(self, n, e=e):
                        return ast.copy_location(_copy.deepcopy(e), n) if n.id == var and isinstance(n.ctx, ast.Load) else n
                for x in st.body:
                    y = _S().visit(_copy.deepcopy(x))
                    ast.copy_location(y, st)
                    ast.fix_missing_locations(y)
                    unrolled.append(y)
            body[i:i + 1] = unrolled
            stats["unroll"] += 1
            continue
        if in_function and isinstance(st, ast.Expr) and isinstance(st.value, ast.YieldFrom) and isinstance(st.value.value, ast.GeneratorExp):
            # `yield from (e for t in it if c)`  ->  for t in it: if c: yield e
            g = st.value.value
            inner: ast.stmt = ast.Expr(value=ast.Yield(value=g.elt))
            for comp in reversed(g.generators):
                for c in reversed(comp.ifs):
                    inner = ast.If(test=c, body=[inner], orelse=[])
                inner = ast.For(target=comp.target, iter=comp.iter, body=[inner], orelse=[], type_comment=None)
            ast.copy_location(inner, st)
            ast.fix_missing_locations(inner)
            stats["yieldfrom"] += 1
            body[i] = inner
            continue
        if in_function and isinstance(st, (ast.Assign, ast.Return)) and isinstance(st.value, ast.Tuple) and (isinstance(st, ast.Return) or len(st.targets) == 1):
            # `return (a if c else b), x`  ->  `if c: return a, x else: return b, x`  (elements before the conditional one are atomic)
            idxs = [k for k, e in enumerate(st.value.elts) if isinstance(e, ast.IfExp)]
            if len(idxs) == 1 and all(_atomic(e) for e in st.value.elts[:idxs[0]]):
                import copy as _copy
                k = idxs[0]
                ife = st.value.elts[k]

                def variant(repl):
                    s2 = _copy.deepcopy(st)
                    s2.value.elts[k] = _copy.deepcopy(repl)
                    return s2
                new = ast.If(test=ife.test, body=[variant(ife.body)], orelse=[variant(ife.orelse)])
                ast.copy_location(new, st)
                ast.fix_missing_locations(new)
                stats["ifexp"] += 1
                body[i] = new
                continue
        if in_function and isinstance(st, (ast.Assign, ast.Return)) and isinstance(st.value, ast.IfExp) and (isinstance(st, ast.Return) or len(st.targets) == 1):
            # statement-level conditional expression -> if statement (the interpreter forks on the test like on any other)
            v = st.value
            if isinstance(st, ast.Return):
                a, b = ast.Return(value=v.body), ast.Return(value=v.orelse)
            else:
                import copy as _copy
                a = ast.Assign(targets=[st.targets[0]], value=v.body, type_comment=None)
                b = ast.Assign(targets=[_copy.deepcopy(st.targets[0])], value=v.orelse, type_comment=None)
            ast.copy_location(a, st)
            ast.copy_location(b, st)
            new = ast.If(test=v.test, body=[a], orelse=[b])
            ast.copy_location(new, st)
            stats["ifexp"] += 1
            body[i] = new
            continue  # re-examine the new statement (else-after-return, nested conditional expressions)
        if in_function and isinstance(st, ast.If) and not st.orelse and len(st.body) == 1 and isinstance(st.body[0], ast.If) and not st.body[0].orelse:
            # `if a: if b: X`  ->  `if a and b: X`
            inner = st.body[0]
            vals = (st.test.values if isinstance(st.test, ast.BoolOp) and isinstance(st.test.op, ast.And) else [st.test]) + \
                   (inner.test.values if isinstance(inner.test, ast.BoolOp) and isinstance(inner.test.op, ast.And) else [inner.test])
            st.test = ast.copy_location(ast.BoolOp(op=ast.And(), values=vals), st.test)
            st.body = inner.body
            stats["mergeif"] += 1
            continue
        if in_function and isinstance(st, ast.If) and st.orelse and st.body and not isinstance(st.body[-1], EXITS) and isinstance(st.orelse[-1], EXITS) \
                and not (len(st.orelse) == 1 and isinstance(st.orelse[0], ast.If)):
            # the exiting branch comes first: `if c: A else: ..exit`  ->  `if not c: ..exit else: A`  (then hoisted below)
            from .canon import negate
            st.test, st.body, st.orelse = negate(st.test), st.orelse, st.body
            stats["flip"] += 1
        if in_function and isinstance(st, ast.If) and st.orelse and not (len(st.orelse) == 1 and isinstance(st.orelse[0], ast.If)) and not isinstance(st.body[-1], EXITS):
            from .canon import positive_test
            pos = positive_test(st.test)
            if pos is not None:  # `if not c: A else: B` -> `if c: B else: A`
                st.test, st.body, st.orelse = pos, st.orelse, st.body
                stats["flip"] += 1
        if in_function and isinstance(st, (ast.For, ast.AsyncFor)) and not st.orelse and len(st.body) == 1 and isinstance(st.body[0], ast.If) and not st.body[0].orelse \
                and len(st.body[0].body) == 1 and isinstance(st.body[0].body[0], ast.Return) and isinstance(st.body[0].body[0].value, ast.Constant) \
                and isinstance(st.body[0].body[0].value.value, bool) and i + 1 < len(body) and isinstance(body[i + 1], ast.Return) and isinstance(body[i + 1].value, ast.Constant) \
                and body[i + 1].value.value is (not st.body[0].body[0].value.value) and isinstance(st, ast.For):
            # for x in it: if c: return True / return False  ->  return any(c for x in it)   (dual: all)
            from .canon import positive_test
            found = st.body[0].body[0].value.value
            cond = st.body[0].test
            if found:
                fn_name, elt = "any", cond
            else:
                pos = positive_test(cond)
                fn_name, elt = "all", (pos if pos is not None else ast.UnaryOp(op=ast.Not(), operand=cond))
            gen = ast.GeneratorExp(elt=elt, generators=[ast.comprehension(target=st.target, iter=st.iter, ifs=[], is_async=0)])
            new = ast.Return(value=ast.Call(func=ast.Name(id=fn_name, ctx=ast.Load()), args=[gen], keywords=[]))
            ast.copy_location(new, st)
            ast.fix_missing_locations(new)
            out.append(new)
            stats["anyall"] += 1
            i += 2
            continue
        if in_function and isinstance(st, ast.If) and not st.orelse and len(st.body) == 1 and i + 1 < len(body) and (
                (isinstance(st.body[0], ast.Continue) and loop_body) or
                (isinstance(st.body[0], ast.Return) and st.body[0].value is None and fn_body and fn is not None and not getattr(fn, "_returns_value", True))):
            # guard with a bare exit: `if c: continue ; REST`  ->  `if not c: REST`   (REST runs to the end of the loop body / function)
            from .canon import negate
            neg = negate(st.test)
            new = ast.If(test=neg, body=body[i + 1:], orelse=[])
            ast.copy_location(new, st)
            ast.fix_missing_locations(new)
            del body[i:]
            body.append(new)
            stats["guard"] += 1
            continue
        if in_function and isinstance(st, ast.If) and st.orelse and i + 1 < len(body) and isinstance(body[i + 1], (ast.Return, ast.Assign, ast.Expr)):
            # function-valued conditional: `if c: f = A else: f = B ; return f(args)`  ->  the call moves into both branches
            nxt = body[i + 1]
            la, lb = st.body[-1], st.orelse[-1]
            if isinstance(la, ast.Assign) and isinstance(lb, ast.Assign) and len(la.targets) == 1 and len(lb.targets) == 1 and isinstance(la.targets[0], ast.Name) \
                    and isinstance(lb.targets[0], ast.Name) and la.targets[0].id == lb.targets[0].id and len(st.body) == 1 and len(st.orelse) == 1:
                f = la.targets[0].id
                v = nxt.value
                if isinstance(v, ast.Await):
                    v = v.value
                uses = [n for x in body[i + 1:] for n in ast.walk(x) if isinstance(n, ast.Name) and n.id == f]
                if isinstance(v, ast.Call) and isinstance(v.func, ast.Name) and v.func.id == f and len(uses) == 1 and not _mentions(st.test, f) \
                        and isinstance(la.value, (ast.Name, ast.Attribute)) and isinstance(lb.value, (ast.Name, ast.Attribute)):
                    import copy as _copy

                    def with_callee(callee):
                        s2 = _copy.deepcopy(nxt)
                        for n in ast.walk(s2):
                            if isinstance(n, ast.Call) and isinstance(n.func, ast.Name) and n.func.id == f:
                                n.func = _copy.deepcopy(callee)
                        return s2
                    st.body = [with_callee(la.value)]
                    st.orelse = [with_callee(lb.value)]
                    del body[i + 1]
                    stats["sinkcall"] += 1
                    continue
        if in_function and isinstance(st, ast.If) and i + 1 < len(body) and isinstance(body[i + 1], ast.Return) and isinstance(body[i + 1].value, ast.Name) and i + 2 == len(body):
            # single exit: `if a: r = X elif b: r = Y else: r = Z ; return r`  ->  each branch returns
            r = body[i + 1].value.id
            sunk = _sink_return(st, r)
            if sunk is not None:
                body[i] = sunk
                del body[i + 1]
                stats["sink"] += 1
                continue
        if in_function and isinstance(st, ast.If) and st.orelse and st.body and isinstance(st.body[-1], EXITS):
            rest = st.orelse
            st.orelse = []
            body[i + 1:i + 1] = rest
            stats["else"] += 1
        if in_function and isinstance(st, ast.Assign) and len(st.targets) == 1 and isinstance(st.targets[0], ast.Name) and i + 1 < len(body) \
                and isinstance(body[i + 1], ast.Return) and isinstance(body[i + 1].value, ast.Name) and body[i + 1].value.id == st.targets[0].id:
            new = ast.Return(value=st.value)
            ast.copy_location(new, st)
            stats["tempreturn"] += 1
            out.append(new)
            i += 2
            continue
        out.append(st)
        i += 1
    if not out:
        p = ast.Pass()
        p.lineno = p.end_lineno = getattr(body[0], "lineno", 0) if body else 0
        p.col_offset = p.end_col_offset = 0
        out = [p]
    return out


def _walk(node: ast.AST, in_function: bool, stats: Dict[str, int], fn) -> None:
    if isinstance(node, (ast.FunctionDef, ast.AsyncFunctionDef)):
        in_function = True
        fn = node
        if not hasattr(node, "_local_annotations"):
            node._local_annotations = {}
    elif isinstance(node, ast.ClassDef):
        in_function = False
        fn = None
    if isinstance(node, (ast.FunctionDef, ast.AsyncFunctionDef, ast.ClassDef)) and len(node.body) > 1 \
            and isinstance(node.body[0], ast.Expr) and isinstance(node.body[0].value, ast.Constant) and isinstance(node.body[0].value.value, str):
        node.body = node.body[1:]
        stats["docstring"] += 1
    if isinstance(node, (ast.FunctionDef, ast.AsyncFunctionDef)) and not hasattr(node, "_returns_value"):
        node._returns_value = any(isinstance(x, ast.Return) and x.value is not None for x in _own_returns(node)) or any(isinstance(x, (ast.Yield, ast.YieldFrom)) for x in ast.walk(node))
    for fld, b in list(_blocks(node)):
        new = _rewrite_block(b, in_function, stats, fn, loop_body=(fld == "body" and isinstance(node, (ast.For, ast.AsyncFor, ast.While))),
                             fn_body=(fld == "body" and isinstance(node, (ast.FunctionDef, ast.AsyncFunctionDef))))
        if fld in ("body", "orelse", "finalbody"):
            setattr(node, fld, new)
        else:
            b[:] = new
    for c in ast.iter_child_nodes(node):
        _walk(c, in_function, stats, fn)


def normalise_tree(tree: ast.Module) -> Dict[str, int]:
    stats = {"docstring": 0, "logging": 0, "else": 0, "tempreturn": 0, "annotation": 0, "ifexp": 0, "loop2comp": 0, "setupdate": 0, "flip": 0, "anyall": 0, "sink": 0, "guard": 0, "yieldfrom": 0, "sinkcall": 0, "dictsplat": 0, "mergeif": 0, "unroll": 0}
    _walk(tree, False, stats, None)
    for n in ast.walk(tree):
        if isinstance(n, (ast.FunctionDef, ast.AsyncFunctionDef)):
            loops_to_comprehensions(n, stats)
            set_updates_to_rebinding(n, stats)
    if stats["loop2comp"]:
        _walk(tree, False, stats, None)  # e.g. `x = [..comp..]; return x`
    return stats


# --------------------------------------------------------------------------- constant folding (whole-repository pass)
def _bound_names(fn: ast.AST) -> set:
    out = set()
    for n in ast.walk(fn):
        if isinstance(n, (ast.FunctionDef, ast.AsyncFunctionDef, ast.Lambda)):
            a = n.args
            out |= {x.arg for x in a.posonlyargs + a.args + a.kwonlyargs}
            if a.vararg:
                out.add(a.vararg.arg)
            if a.kwarg:
                out.add(a.kwarg.arg)
        elif isinstance(n, ast.Name) and isinstance(n.ctx, (ast.Store, ast.Del)):
            out.add(n.id)
        elif isinstance(n, ast.ExceptHandler) and n.name:
            out.add(n.name)
        elif isinstance(n, (ast.Import, ast.ImportFrom)):
            out |= {(a.asname or a.name).split(".")[0] for a in n.names}
    return out


_PURE_CTORS = {"frozenset", "set", "tuple", "list", "dict", "sorted"}


def _pure_definition(e: ast.expr) -> bool:
    for n in ast.walk(e):
        if isinstance(n, ast.Call) and not (isinstance(n.func, ast.Name) and n.func.id in _PURE_CTORS):
            return False
        if isinstance(n, (ast.Await, ast.Yield, ast.YieldFrom, ast.NamedExpr, ast.Lambda)):
            return False
    return True


def _mutated_anywhere(repo, name: str) -> bool:
    for m in repo.modules.values():
        for n in ast.walk(m.tree):
            if isinstance(n, (ast.Subscript, ast.Attribute)) and isinstance(n.ctx, (ast.Store, ast.Del)) and isinstance(n.value, ast.Name) and n.value.id == name:
                return True
            if isinstance(n, ast.Call) and isinstance(n.func, ast.Attribute) and isinstance(n.func.value, ast.Name) and n.func.value.id == name \
                    and n.func.attr in ("append", "extend", "add", "update", "pop", "remove", "clear", "insert", "setdefault", "sort"):
                return True
            if isinstance(n, ast.Global) and name in n.names:
                return True
    return False


def _mutable_value(e: ast.expr) -> bool:
    return isinstance(e, (ast.Dict, ast.List, ast.Set, ast.ListComp, ast.DictComp, ast.SetComp)) or \
        (isinstance(e, ast.Call) and isinstance(e.func, ast.Name) and e.func.id in ("dict", "list", "set"))


_COPYING = {"dict", "list", "set", "tuple", "frozenset", "sorted", "len", "any", "all", "sum", "min", "max", "enumerate", "iter"}
_READ_METHODS = {"copy", "get", "items", "keys", "values", "index", "count", "isdisjoint", "issubset", "issuperset", "union", "difference", "intersection"}


def _only_readonly_uses(repo, name: str) -> bool:
    """a module-level mutable object may be read as its defining display only if no use can let it escape: every load is
    copied (`dict(X)`, `X.copy()`, `{**X}`), iterated, subscripted or membership-tested - never bound, passed on or returned"""
    for m in repo.modules.values():
        parents = {}
        for n in ast.walk(m.tree):
            for c in ast.iter_child_nodes(n):
                parents[id(c)] = n
        for n in ast.walk(m.tree):
            if not (isinstance(n, ast.Name) and n.id == name and isinstance(n.ctx, ast.Load)):
                continue
            p = parents.get(id(n))
            ok = False
            if isinstance(p, ast.Call) and isinstance(p.func, ast.Name) and p.func.id in _COPYING and len(p.args) == 1 and p.args[0] is n and not p.keywords:
                ok = True
            elif isinstance(p, ast.Attribute) and p.value is n and p.attr in _READ_METHODS and isinstance(parents.get(id(p)), ast.Call) and parents[id(p)].func is p:
                ok = True
            elif isinstance(p, ast.Compare) and n in p.comparators and all(isinstance(o, (ast.In, ast.NotIn)) for o in p.ops):
                ok = True
            elif isinstance(p, (ast.For, ast.AsyncFor, ast.comprehension)) and p.iter is n:
                ok = True
            elif isinstance(p, ast.Subscript) and p.value is n and isinstance(p.ctx, ast.Load):
                ok = True
            elif isinstance(p, ast.Dict) and any(k is None and v is n for k, v in zip(p.keys, p.values)):
                ok = True
            elif isinstance(p, ast.Starred):
                ok = True
            if not ok:
                return False
    return True


def fold_constants(repo) -> int:
    """replace every Name that resolves (through the imports of the analysed tree) to a module-level scalar / tuple
    constant by its value.  Returns the number of names folded."""
    from .canon import ExprCanon, is_foldable, sig_from_table
    total = 0
    # signatures of the analysed tree, by bare function name (the same name-based lookup is used for rule patterns, with
    # the signatures of the pinned tree)
    table: Dict[str, list] = {}
    for m in repo.modules.values():
        for fi in m.functions.values():
            a = fi.node.args
            table.setdefault(fi.node.name, []).append({"pos": [x.arg for x in a.posonlyargs + a.args], "kwonly": [x.arg for x in a.kwonlyargs], "vararg": bool(a.vararg),
                                                       "method": fi.cls is not None, "static": any(getattr(d, "id", "") == "staticmethod" for d in fi.node.decorator_list)})
    sigs = sig_from_table(table)
    from .canon import pinned as _pinned
    pinned_assigns = _pinned().get("assigns", {})
    pinned_functions = _pinned().get("functions", {})
    for m in repo.modules.values():
        cache = {}
        count = [0]

        def const(name, m=m, cache=cache, count=count):
            if name.startswith("__") or name in ("True", "False", "None"):
                return None
            if name not in cache:
                r = None
                try:
                    k, v = repo.resolve(m, name)
                    if k == "const" and is_foldable(v) and not isinstance(v, bool) or (k == "const" and isinstance(v, bool)):
                        r = (True, v)
                    elif k in ("var", "const"):
                        # a module-level name that does not exist on the pinned tree, assigned once to a pure expression
                        # (comprehension / literal / constructor over names): read like the expression itself
                        if k == "var":
                            dm, dn = v
                        else:
                            dm, dn = m, name
                            hops = 0
                            while dn not in dm.assigns and dn in dm.imports and hops < 5:
                                mod_, attr_ = dm.imports[dn]
                                if attr_ is None or mod_ not in repo.modules:
                                    break
                                dm, dn = repo.modules[mod_], attr_
                                hops += 1
                        known = set(pinned_assigns.get(dm.relpath, []))
                        vals = dm.assigns.get(dn, [])
                        if (dm.relpath in pinned_assigns or dm.relpath in pinned_functions) and dn not in known and len(vals) == 1 and isinstance(vals[0], ast.expr) and _pure_definition(vals[0]) \
                                and not _mutated_anywhere(repo, dn) and (not _mutable_value(vals[0]) or _only_readonly_uses(repo, dn)):
                            r = (False, vals[0])
                except Exception:
                    r = None
                cache[name] = r
            if cache[name] is not None:
                count[0] += 1
            return cache[name]

        def do_block(body, bound):
            for i, st in enumerate(body):
                if isinstance(st, (ast.FunctionDef, ast.AsyncFunctionDef)):
                    b = bound | _bound_names(st)
                    c = ExprCanon(const, b, sigs)
                    st.body = [c.visit(x) for x in st.body]
                    st.args = c.visit(st.args)  # default values
                elif isinstance(st, ast.ClassDef):
                    do_block(st.body, bound)
                elif isinstance(st, (ast.Import, ast.ImportFrom, ast.Global, ast.Nonlocal)):
                    continue
                else:
                    body[i] = ExprCanon(const, bound, sigs).visit(st)
        do_block(m.tree.body, set())
        ast.fix_missing_locations(m.tree)
        m.constants_folded = count[0]
        total += count[0]
    total += _unused_new_parameters(repo, table)
    total += _compiled_regex_calls(repo)
    return total


_RE_METHODS = {"findall", "finditer", "match", "search", "sub", "subn", "split", "fullmatch"}


def _compiled_regex_calls(repo) -> int:
    """`P.findall(s)` where P is a module-level `re.compile(<pattern>)` object  ->  `re.findall(<pattern>, s)`"""
    n = 0
    for m in repo.modules.values():
        for c in ast.walk(m.tree):
            if isinstance(c, ast.Call) and isinstance(c.func, ast.Attribute) and c.func.attr in _RE_METHODS and isinstance(c.func.value, ast.Name):
                try:
                    k, v = repo.resolve(m, c.func.value.id)
                except Exception:
                    continue
                if k != "var":
                    continue
                dm, dn = v
                vals = dm.assigns.get(dn, [])
                if len(vals) == 1 and isinstance(vals[0], ast.Call) and isinstance(vals[0].func, ast.Attribute) and vals[0].func.attr == "compile" \
                        and isinstance(vals[0].func.value, ast.Name) and vals[0].func.value.id == "re" and len(vals[0].args) == 1 and not vals[0].keywords:
                    import copy as _copy
                    c.func = ast.copy_location(ast.Attribute(value=ast.Name(id="re", ctx=ast.Load()), attr=c.func.attr, ctx=ast.Load()), c.func)
                    c.args = [_copy.deepcopy(vals[0].args[0])] + c.args
                    ast.fix_missing_locations(c)
                    n += 1
    return n


def _unused_new_parameters(repo, table) -> int:
    """a parameter that does not exist on the pinned tree, has a constant default and is passed by no call in the
    repository always has that default: its reads are replaced by the default (the generator's behaviour is what the
    properties are about; the parameter itself stays in the signature)"""
    from .canon import pinned as _pinned
    psigs = _pinned().get("sigs", {})
    n = 0
    calls_by_name: Dict[str, list] = {}
    for m in repo.modules.values():
        for c in ast.walk(m.tree):
            if isinstance(c, ast.Call):
                nm = c.func.attr if isinstance(c.func, ast.Attribute) else c.func.id if isinstance(c.func, ast.Name) else None
                if nm:
                    calls_by_name.setdefault(nm, []).append(c)
    for m in repo.modules.values():
        for fi in m.functions.values():
            fn = fi.node
            old = psigs.get(fn.name)
            if not old or len(old) != 1:
                continue
            known = set(old[0]["pos"]) | set(old[0]["kwonly"])
            a = fn.args
            pos = a.posonlyargs + a.args
            defaults = dict(zip([x.arg for x in pos[len(pos) - len(a.defaults):]], a.defaults))
            defaults.update({x.arg: d for x, d in zip(a.kwonlyargs, a.kw_defaults) if d is not None})
            for p, d in defaults.items():
                if p in known or not isinstance(d, (ast.Constant, ast.Tuple)) or (isinstance(d, ast.Tuple) and not all(isinstance(e, ast.Constant) for e in d.elts)):
                    continue
                cs = calls_by_name.get(fn.name, [])
                idx = [x.arg for x in pos].index(p) - (1 if fi.cls is not None and pos and pos[0].arg in ("self", "cls") else 0) if p in [x.arg for x in pos] else None
                passed = any(any(k.arg == p or k.arg is None for k in c.keywords) or any(isinstance(x, ast.Starred) for x in c.args) or (idx is not None and len(c.args) > idx) for c in cs)
                stored = any(isinstance(x, ast.Name) and x.id == p and isinstance(x.ctx, (ast.Store, ast.Del)) for x in ast.walk(fn))
                if passed or stored:
                    continue
                import copy as _copy

                class R(ast.NodeTransformer):
                    def visit_Name(self, node):
                        if node.id == p and isinstance(node.ctx, ast.Load):
                            return ast.copy_location(_copy.deepcopy(d), node)
                        return node
                fn.body = [R().visit(x) for x in fn.body]
                n += 1
    return n
