"""Mutant catalogue for the self-test: each entry is a realistic, still-compiling edit
that breaks a property, plus benign variants (rule=None) that must stay silent."""
from .selftest import M

D = "client_generators/dependencies/"
A, S, AO, SO = D + "async_base_client.py", D + "base_client.py", D + "async_base_client_open_telemetry.py", D + "base_client_open_telemetry.py"

# ----------------------------------------------------------------------- C12
for i, f in enumerate((A, S, AO, SO)):
    M(f"c12-errors-need-no-data-{i}", "C12", "C12.R1", f, "        if errors:\n", "        if errors and not data:\n")
    M(f"c12-return-whole-json-{i}", "C12", "C12.R1", f, "        return cast(Dict[str, Any], data)", "        return cast(Dict[str, Any], response_json)")
M("c12-status-after-decode", "C12", "C12.R1", A,
  "        if not response.is_success:\n            raise GraphQLClientHttpError(\n                status_code=response.status_code, response=response\n            )\n\n        try:\n            response_json = response.json()\n        except ValueError as exc:\n            raise GraphQLClientInvalidResponseError(response=response) from exc\n",
  "        try:\n            response_json = response.json()\n        except ValueError as exc:\n            raise GraphQLClientInvalidResponseError(response=response) from exc\n\n        if not response.is_success:\n            raise GraphQLClientHttpError(\n                status_code=response.status_code, response=response\n            )\n")
M("c12-shape-and", "C12", "C12.R1", S, '"data" not in response_json and "errors" not in response_json', '"data" not in response_json')
M("c12-shape-or", "C12", "C12.R1", AO, '"data" not in response_json and "errors" not in response_json', '"data" not in response_json or "errors" not in response_json')
M("c12-decode-unguarded", "C12", "C12.R1", SO, "        except ValueError as exc:\n            raise GraphQLClientInvalidResponseError(response=response) from exc", "        except KeyError as exc:\n            raise GraphQLClientInvalidResponseError(response=response) from exc")
M("c12-decode-swallowed", "C12", "C12.R1", A, "        except ValueError as exc:\n            raise GraphQLClientInvalidResponseError(response=response) from exc", "        except ValueError:\n            return {}")
M("c12-http-error-on-5xx-only", "C12", "C12.R1", A, "        if not response.is_success:\n            raise GraphQLClientHttpError(", "        if response.is_server_error:\n            raise GraphQLClientHttpError(")
M("c12-multi-error-drops-data", "C12", "C12.R2", A, "errors_dicts=errors, data=data\n            )\n\n        return", "errors_dicts=errors, data=None\n            )\n\n        return")
M("c12-http-error-status-const", "C12", "C12.R2", S, "status_code=response.status_code, response=response", "status_code=500, response=response")
M("c12-from-dict-path", "C12", "C12.R2", D + "exceptions.py", 'path=error.get("path"),', 'path=error.get("locations"),')
M("c12-from-dict-original", "C12", "C12.R2", D + "exceptions.py", "original=error,", "original=None,")
M("c12-errors-first-only", "C12", "C12.R2", D + "exceptions.py", "for e in errors_dicts]", "for e in errors_dicts[:1]]")
M("c12-errors-filtered", "C12", "C12.R2", D + "exceptions.py", "for e in errors_dicts]", "for e in errors_dicts if e.get('path')]")
M("c12-benign-rename-local", "C12", None, A, "response_json", "payload_json", count=0)
M("c12-is-error-misses-3xx", "C12", "C12.R1", A, "if not response.is_success:", "if response.is_error:")
M("c12-json-decode-error-only", "C12", "C12.R1", S, "        except ValueError as exc:\n            raise GraphQLClientInvalidResponseError(response=response) from exc", "        except json.JSONDecodeError as exc:\n            raise GraphQLClientInvalidResponseError(response=response) from exc")
M("c12-benign-demorgan", "C12", None, S, '(not isinstance(response_json, dict)) or (\n            "data" not in response_json and "errors" not in response_json\n        )',
  'not (isinstance(response_json, dict) and ("data" in response_json or "errors" in response_json))')

# ----------------------------------------------------------------------- C11
for i, f in enumerate((A, S, AO, SO)):
    M(f"c11-opname-key-{i}", "C11", "C11.R3", f, '"operationName": operation_name,\n                    "variables": variables,\n                },\n                default=to_jsonable_python,\n            ),\n            **merged_kwargs,',
      '"operation_name": operation_name,\n                    "variables": variables,\n                },\n                default=to_jsonable_python,\n            ),\n            **merged_kwargs,')
    M(f"c11-upload-returned-{i}", "C11", "C11.R5", f, "                    files_map[str(file_index)] = [path]\n                return None", "                    files_map[str(file_index)] = [path]\n                return obj")
M("c11-headers-caller-loses", "C11", "C11.R4", A,
  '        headers: Dict[str, str] = {"Content-Type": "application/json"}\n        headers.update(kwargs.get("headers", {}))\n\n        merged_kwargs: Dict[str, Any] = kwargs.copy()',
  '        headers: Dict[str, str] = dict(kwargs.get("headers", {}))\n        headers["Content-Type"] = "application/json"\n\n        merged_kwargs: Dict[str, Any] = kwargs.copy()')
M("c11-kwargs-mutated", "C11", "C11.R4", S, "merged_kwargs: Dict[str, Any] = kwargs.copy()", "merged_kwargs: Dict[str, Any] = kwargs")
M("c11-headers-not-merged", "C11", "C11.R4", AO, '        headers.update(kwargs.get("headers", {}))\n\n        merged_kwargs: Dict[str, Any] = kwargs.copy()', '\n        merged_kwargs: Dict[str, Any] = kwargs.copy()')
M("c11-one-client-only-timeout", "C11", "C11.R1", S, "        return self.http_client.post(url=self.url, data=data, files=files, **kwargs)", "        kwargs.pop(\"timeout\", None)\n        return self.http_client.post(url=self.url, data=data, files=files, **kwargs)")
M("c11-multipart-variables-dropped", "C11", "C11.R3", SO, '                    "variables": variables,\n                },\n                default=to_jsonable_python,\n            ),\n            "map"', '                    "variables": {},\n                },\n                default=to_jsonable_python,\n            ),\n            "map"')
M("c11-map-wrong", "C11", "C11.R3", A, '"map": json.dumps(files_map, default=to_jsonable_python)', '"map": json.dumps(files, default=to_jsonable_python)')
M("c11-upload-repeat-no-append", "C11", "C11.R5", A, "                    file_index = files_list.index(obj)\n                    files_map[str(file_index)].append(path)", "                    file_index = files_list.index(obj)")
M("c11-upload-index-after-append", "C11", "C11.R5", S, "                    file_index = len(files_list)\n                    files_list.append(obj)", "                    files_list.append(obj)\n                    file_index = len(files_list)")
M("c11-upload-dup-sent-twice", "C11", "C11.R5", AO, "                if obj in files_list:", "                if False and obj in files_list:")
M("c11-list-path-no-index", "C11", "C11.R5", SO, 'value = separate_files(f"{path}.{index}", value)', 'value = separate_files(f"{path}", value)')
M("c11-dict-path-sep", "C11", "C11.R5", A, 'value = separate_files(f"{path}.{key}", value)', 'value = separate_files(f"{path}/{key}", value)')
M("c11-root-path", "C11", "C11.R5", S, 'separate_files("variables", variables)', 'separate_files("variable", variables)')
M("c11-files-keys-offset", "C11", "C11.R5", AO, "            str(i): (file_.filename,", "            str(i + 1): (file_.filename,")
M("c11-multipart-needs-only-files", "C11", "C11.R5", A, "        if files and files_map:\n            return await self._execute_multipart(", "        if files or files_map:\n            return await self._execute_multipart(")
M("c11-unset-filter-dropped", "C11", "C11.R7", A, "            for key, value in dict_.items()\n            if value is not UNSET\n", "            for key, value in dict_.items()\n")
M("c11-none-filtered", "C11", "C11.R7", S, "            if value is not UNSET\n", "            if value is not UNSET and value is not None\n")
M("c11-by-alias-dropped", "C11", "C11.R7", AO, "value.model_dump(by_alias=True, exclude_unset=True)", "value.model_dump(exclude_unset=True)")
M("c11-exclude-none", "C11", "C11.R7", SO, "value.model_dump(by_alias=True, exclude_unset=True)", "value.model_dump(by_alias=True, exclude_unset=True, exclude_none=True)")
M("c11-state-on-self", "C11", "C11.R6", A, "        processed_variables, files, files_map = self._process_variables(variables)\n\n        if files and files_map:\n            return await self._execute_multipart(",
  "        processed_variables, files, files_map = self._process_variables(variables)\n        self._last_variables = processed_variables\n\n        if files and files_map:\n            return await self._execute_multipart(")
M("c11-telemetry-twin-diverges", "C11", "C11.R2", AO, "            return await self._execute_json_with_telemetry(\n                root_span=root_span,\n                query=query,\n                operation_name=operation_name,\n                variables=processed_variables,",
  "            return await self._execute_json_with_telemetry(\n                root_span=root_span,\n                query=query,\n                operation_name=operation_name,\n                variables=variables,")
M("c11-telemetry-forward-drops-kwargs", "C11", "C11.R2", SO, "            return self._execute_json(\n                query=query,\n                operation_name=operation_name,\n                variables=variables,\n                **kwargs,\n            )", "            return self._execute_json(\n                query=query,\n                operation_name=operation_name,\n                variables=variables,\n            )")
M("c11-dispatcher-drops-opname", "C11", "C11.R1", AO, "        return await self._execute(\n            query=query, operation_name=operation_name, variables=variables, **kwargs\n        )", "        return await self._execute(\n            query=query, operation_name=None, variables=variables, **kwargs\n        )")
M("c11-benign-rename-local", "C11", None, A, "nulled_list", "cleaned", count=0)
M("c11-benign-docstring", "C11", None, S, "    def _convert_value(self, value: Any) -> Any:\n", "    def _convert_value(self, value: Any) -> Any:\n        \"\"\"Convert one value.\"\"\"\n")

# ----------------------------------------------------------------------- C13
M("c13-subscribe-before-ack", "C13", "C13.R1", A,
  "            await self._send_connection_init(websocket)\n            # wait for connection_ack from server\n            await self._handle_ws_message(\n                await websocket.recv(),\n                websocket,\n                expected_type=GraphQLTransportWSMessageType.CONNECTION_ACK,\n            )\n            await self._send_subscribe(\n                websocket,\n                operation_id=operation_id,\n                query=query,\n                operation_name=operation_name,\n                variables=variables,\n            )\n",
  "            await self._send_connection_init(websocket)\n            await self._send_subscribe(\n                websocket,\n                operation_id=operation_id,\n                query=query,\n                operation_name=operation_name,\n                variables=variables,\n            )\n            # wait for connection_ack from server\n            await self._handle_ws_message(\n                await websocket.recv(),\n                websocket,\n                expected_type=GraphQLTransportWSMessageType.CONNECTION_ACK,\n            )\n")
M("c13-ack-not-required", "C13", "C13.R1", AO, "                websocket,\n                expected_type=GraphQLTransportWSMessageType.CONNECTION_ACK,\n            )\n            await self._send_subscribe(\n                websocket,", "                websocket,\n            )\n            await self._send_subscribe(\n                websocket,")
M("c13-subscribe-in-loop", "C13", "C13.R1", A, "            async for message in websocket:\n                data = await self._handle_ws_message(message, websocket)\n", "            async for message in websocket:\n                await self._send_subscribe(websocket, operation_id=operation_id, query=query, operation_name=operation_name, variables=variables)\n                data = await self._handle_ws_message(message, websocket)\n")
M("c13-subscribe-opname-none", "C13", "C13.R1", A, "                query=query,\n                operation_name=operation_name,\n                variables=variables,\n            )\n\n            async for message in websocket:", "                query=query,\n                operation_name=None,\n                variables=variables,\n            )\n\n            async for message in websocket:")
M("c13-subprotocol", "C13", "C13.R2", A, 'GRAPHQL_TRANSPORT_WS = "graphql-transport-ws"', 'GRAPHQL_TRANSPORT_WS = "graphql-ws"')
M("c13-headers-shared", "C13", "C13.R2", A, "        headers = self.ws_headers.copy()\n        headers.update(kwargs.get(\"extra_headers\", {}))\n\n        merged_kwargs: Dict[str, Any] = {\"origin\": self.ws_origin}\n        merged_kwargs.update(kwargs)\n        merged_kwargs[\"extra_headers\"] = headers\n\n        operation_id = str(uuid4())\n        async with ws_connect(\n            self.ws_url,\n            subprotocols=[Subprotocol(GRAPHQL_TRANSPORT_WS)],\n            **merged_kwargs,\n        ) as websocket:\n            await self._send_connection_init(websocket)",
  "        headers = dict(kwargs.get(\"extra_headers\", {}))\n\n        merged_kwargs: Dict[str, Any] = {\"origin\": self.ws_origin}\n        merged_kwargs.update(kwargs)\n        merged_kwargs[\"extra_headers\"] = headers\n\n        operation_id = str(uuid4())\n        async with ws_connect(\n            self.ws_url,\n            subprotocols=[Subprotocol(GRAPHQL_TRANSPORT_WS)],\n            **merged_kwargs,\n        ) as websocket:\n            await self._send_connection_init(websocket)")
for i, f in enumerate((A, AO)):
    M(f"c13-ping-no-pong-{i}", "C13", "C13.R3", f, "        elif type_ == GraphQLTransportWSMessageType.PING:\n            await websocket.send(\n                json.dumps({\"type\": GraphQLTransportWSMessageType.PONG.value})\n            )\n", "        elif type_ == GraphQLTransportWSMessageType.PING:\n            pass\n")
    M(f"c13-pong-answers-ping-{i}", "C13", "C13.R3", f, 'json.dumps({"type": GraphQLTransportWSMessageType.PONG.value})\n            )\n        elif', 'json.dumps({"type": GraphQLTransportWSMessageType.PING.value})\n            )\n        elif')
    M(f"c13-complete-ignored-{i}", "C13", "C13.R3", f, "        if type_ == GraphQLTransportWSMessageType.COMPLETE:\n            await websocket.close()\n        elif type_ == GraphQLTransportWSMessageType.PING:", "        if type_ == GraphQLTransportWSMessageType.PING:")
    M(f"c13-unknown-type-ignored-{i}", "C13", "C13.R3", f, "        if not type_ or type_ not in {t.value for t in GraphQLTransportWSMessageType}:\n            raise GraphQLClientInvalidMessageFormat(message=message)\n", "        if not type_:\n            raise GraphQLClientInvalidMessageFormat(message=message)\n")
    M(f"c13-next-without-data-none-{i}", "C13", "C13.R3", f, '            if "data" not in payload:\n                raise GraphQLClientInvalidMessageFormat(message=message)\n            return cast(Dict[str, Any], payload["data"])', '            if "data" not in payload:\n                return None\n            return cast(Dict[str, Any], payload["data"])')
M("c13-error-frame-swallowed", "C13", "C13.R3", A, "        elif type_ == GraphQLTransportWSMessageType.ERROR:\n            raise GraphQLClientGraphQLMultiError.from_errors_dicts(\n                errors_dicts=payload, data=message_dict\n            )\n", "        elif type_ == GraphQLTransportWSMessageType.ERROR:\n            await websocket.close()\n")
M("c13-otel-handler-ping", "C13", "C13.R3", AO, "            elif type_ == GraphQLTransportWSMessageType.PING:\n                await websocket.send(", "            elif type_ == GraphQLTransportWSMessageType.PONG:\n                await websocket.send(")
M("c13-expected-type-not-checked", "C13", "C13.R3", A, "        if expected_type and expected_type != type_:", "        if expected_type and expected_type == type_:")
M("c13-loop-yields-message", "C13", "C13.R4", A, "                if data:\n                    yield data", "                if data:\n                    yield message")
M("c13-loop-stops-after-first", "C13", "C13.R4", AO, "                data = await self._handle_ws_message(message, websocket)\n                if data:\n                    yield data", "                data = await self._handle_ws_message(message, websocket)\n                if data:\n                    yield data\n                    return")
M("c13-init-payload-dropped", "C13", "C13.R5", A, '        if self.ws_connection_init_payload:\n            payload["payload"] = self.ws_connection_init_payload\n        await websocket.send', '        await websocket.send')
M("c13-subscribe-raw-variables", "C13", "C13.R5", A, 'payload["payload"]["variables"] = self._convert_dict_to_json_serializable(\n                variables\n            )', 'payload["payload"]["variables"] = variables')
M("c13-subscribe-opname-key", "C13", "C13.R5", AO, '"payload": {"query": query, "operationName": operation_name},', '"payload": {"query": query, "operation_name": operation_name},')
M("c13-otel-twin", "C13", "C11.R2", AO, "                    if data:\n                        yield data", "                    if data is not None:\n                        yield data")
M("c13-benign-rename", "C13", None, A, "message_dict", "frame", count=0)

# ----------------------------------------------------------------------- C10
CG = "client_generators/"
M("c10-deps-unsorted", "C10", "C10.R1", CG + "fragments.py", "for dep in sorted(dependencies_dict[name]):", "for dep in dependencies_dict[name]:")
M("c10-roots-unsorted", "C10", "C10.R1", CG + "fragments.py", "for name in sorted(fragments_names):", "for name in fragments_names:")
M("c10-files-unsorted", "C10", "C10.R1", "schema.py", "for f in sorted(walk_graphql_files(path))", "for f in walk_graphql_files(path)")
M("c10-related-fragments-unsorted", "C10", "C10.R1", CG + "result_types.py", "for used_fragment in sorted(self._get_all_related_fragments()):", "for used_fragment in self._get_all_related_fragments():")
M("c10-bases-unsorted", "C10", "C10.R1", CG + "result_types.py", "[str_to_pascal_case(f) for f in sorted(fragments)]", "[str_to_pascal_case(f) for f in fragments]")
M("c10-typename-unsorted", "C10", "C10.R1", CG + "result_fields.py", "for v in sorted(typename_values)]", "for v in typename_values]")
M("c10-rebuild-unsorted", "C10", "C10.R1", CG + "fragments.py", "        sorted_fragments_names = sorted(\n            top_level_fragments_names, key=class_names.index\n        )", "        sorted_fragments_names = top_level_fragments_names")
M("c10-interface-fragment-types-unsorted", "C10", "C10.R1", CG + "result_fields.py", "        fragments_types_names = sorted(\n            {", "        fragments_types_names = list(\n            {")
M("c10-type-collector-unsorted", "C10", "C10.R1", CG + "custom_generator_utils.py", "return sorted(self.collected_types)", "return list(self.collected_types)")
M("c10-custom-fields-typing-unsorted", "C10", "C10.R1", CG + "custom_fields.py", "sorted(additional_fields_typing)", "list(additional_fields_typing)")
M("c10-stable-comment-time", "C10", "C10.R2", CG + "comments.py", "    comment = STABLE_COMMENT\n", "    comment = STABLE_COMMENT + datetime.now().strftime(\"%Y\")\n")
M("c10-timestamp-default", "C10", "C10.R2", CG + "comments.py", "    }.get(strategy, empty_comment_function)", "    }.get(strategy, get_timestamp_comment)")
M("c10-skip-existing-init", "C10", "C10.R3", CG + "package.py", "        init_module = self.init_generator.generate()\n", "        if init_file_path.exists():\n            return\n        init_module = self.init_generator.generate()\n")
M("c10-append-client", "C10", "C10.R3", CG + "package.py", "        client_file_path.write_text(code)", "        with client_file_path.open(\"a\") as fh:\n            fh.write(code)")
M("c10-hash-in-name", "C10", "C10.R2", CG + "package.py", '        file_name = f"{module_name}.py"', '        file_name = f"{module_name}.py" if hash(module_name) else f"{module_name}.py"')
M("c10-benign-sorted-twice", "C10", None, CG + "fragments.py", "for name in sorted(fragments_names):", "for name in sorted(sorted(fragments_names)):")

# ----------------------------------------------------------------------- C01
RTF = CG + "result_types.py"
RFF = CG + "result_fields.py"
M("c01-mixin-not-recorded", "C01", "C01.R1", RTF, "                    fragments.add(selection.name.value)", "                    pass")
M("c01-unpacked-not-recorded", "C01", "C01.R1", RTF, "                    self._unpacked_fragments.add(selection.name.value)\n", "")
M("c01-inline-fields-dropped", "C01", "C01.R1", RTF, "                        selection.selection_set, root_type_value\n                    )\n                    fields.extend(sub_fields)\n", "                        selection.selection_set, root_type_value\n                    )\n")
M("c01-spread-fragments-dropped", "C01", "C01.R1", RTF, "                    fields.extend(sub_fields)\n                    fragments = fragments.union(sub_fragments)\n            elif isinstance(selection, InlineFragmentNode):", "                    fields.extend(sub_fields)\n            elif isinstance(selection, InlineFragmentNode):")
M("c01-mixins-not-accumulated", "C01", "C01.R1", RTF, "        self._fragments_used_as_mixins = self._fragments_used_as_mixins.union(\n            set(fragments)\n        )\n        return fields, fragments", "        return fields, fragments")
M("c01-no-typename", "C01", "C01.R2", RTF, "add_typename=field_context.abstract_type,", "add_typename=False,")
M("c01-union-not-abstract", "C01", "C01.R2", RFF, "    context.abstract_type = True\n    sub_annotations", "    sub_annotations")
M("c01-interface-abstract-late", "C01", "C01.R2", RFF, "    context.abstract_type = True\n    if inline_fragments or fragments_on_subtypes:", "    if inline_fragments or fragments_on_subtypes:\n        context.abstract_type = True")
M("c01-typename-not-sent", "C01", "C01.R2", RTF, "            (\n                resolved_selection_set,\n                selection_set.selections,\n            ) = self._add_typename_field_to_selections(", "            (\n                resolved_selection_set,\n                _,\n            ) = self._add_typename_field_to_selections(")
M("c01-typename-appended-to-fields-only", "C01", "C01.R2", RTF, "            return [typename_field, *resolved_fields], (\n                typename_field,\n                *selection_set.selections,\n            )", "            return [typename_field, *resolved_fields], selection_set.selections")
M("c01-alias-from-python-name", "C01", "C01.R3", RTF, "keywords[ALIAS_KEYWORD] = generate_constant(field_schema_name)", "keywords[ALIAS_KEYWORD] = generate_constant(field_implementation.target.id)")
M("c01-response-key-ignores-alias", "C01", "C01.R3", RTF, "        if field.alias:\n            return field.alias.value\n        return field.name.value", "        return field.name.value")
M("c01-schema-lookup-by-alias", "C01", "C01.R3", RTF, "self._get_field_from_schema(type_name, field.name.value)", "self._get_field_from_schema(type_name, field_name)")
M("c01-class-name-drift", "C01", "C01.R4", RFF, "            RelatedClassData(class_name=class_name + type_.name, type_name=type_.name)\n        )\n        fragments_types_names", "            RelatedClassData(class_name=class_name + type_.name + \"Base\", type_name=type_.name)\n        )\n        fragments_types_names")
M("c01-object-not-registered", "C01", "C01.R4", RFF, "    name = class_name + type_.name if add_type_name else class_name\n    context.related_classes.append(\n        RelatedClassData(class_name=name, type_name=type_.name)\n    )\n    return generate_annotation_name('\"' + name + '\"', nullable)\n\n\ndef parse_enum_type", "    name = class_name + type_.name if add_type_name else class_name\n    return generate_annotation_name('\"' + name + '\"', nullable)\n\n\ndef parse_enum_type")
M("c01-related-class-filtered", "C01", "C01.R5", RTF, "            for related_class_data in field_context.related_classes:\n                generated_classes.extend(", "            for related_class_data in field_context.related_classes:\n                if related_class_data.type_name.startswith(\"_\"):\n                    continue\n                generated_classes.extend(")
M("c01-field-skipped", "C01", "C01.R5", RTF, "            class_def.body.append(field_implementation)\n\n            extra_classes.extend(", "            if not field.directives:\n                class_def.body.append(field_implementation)\n\n            extra_classes.extend(")
M("c01-typename-values-lost", "C01", "C01.R5", RTF, "typename_values=typename_values[related_class_data.type_name],", "typename_values=None,")
M("c01-discriminator-wire-name", "C01", "C01.R7", RTF, "keywords[DISCRIMINATOR_KEYWORD] = generate_constant(TYPENAME_ALIAS)", "keywords[DISCRIMINATOR_KEYWORD] = generate_constant(TYPENAME_FIELD_NAME)")
M("c01-possible-types-dropped", "C01", "C01.R7", RTF, "        result[abstract_type.name].extend(types_without_class)\n", "")
M("c01-typename-alias-private", "C01", "C01.R7", CG + "constants.py", 'TYPENAME_ALIAS = "typename__"', 'TYPENAME_ALIAS = "_typename"')
M("c01-benign-rename", "C01", None, RTF, "sub_fields", "inner_fields", count=0)

# ----------------------------------------------------------------------- C08
FRF = CG + "fragments.py"
M("c08-union-fragment-as-mixin", "C08", "C08.R1", RTF, "            GraphQLUnionType,\n        ):\n            return True", "            GraphQLUnionType,\n        ):\n            return False")
M("c08-other-type-as-mixin", "C08", "C08.R1", RTF, "            and fragment_def.type_condition.name.value != root_type_def.name\n        ):\n            return True", "            and fragment_def.type_condition.name.value != root_type_def.name\n        ):\n            return False")
M("c08-inline-fragment-as-mixin", "C08", "C08.R1", RTF, "            if isinstance(fragment_selection, InlineFragmentNode):\n                return True", "            if isinstance(fragment_selection, InlineFragmentNode):\n                return False")
M("c08-always-unpack", "C08", "C08.R1", RTF, "                return True\n        return False\n\n    def _add_typename_field_to_selections", "                return True\n        return True\n\n    def _add_typename_field_to_selections")
M("c08-bases-ignore-fragments", "C08", "C08.R1", RTF, "        if fragments:\n            class_bases = [str_to_pascal_case(f) for f in sorted(fragments)]", "        if False:\n            class_bases = [str_to_pascal_case(f) for f in sorted(fragments)]")
M("c08-mixin-bases-dropped", "C08", "C08.R1", RTF, "        if extra_bases:\n            class_bases.extend(extra_bases)\n", "")
M("c08-preorder", "C08", "C08.R3", FRF, "            visited.add(name)\n            for dep in sorted(dependencies_dict[name]):\n                visit(dep)\n            sorted_names.append(name)", "            visited.add(name)\n            sorted_names.append(name)\n            for dep in sorted(dependencies_dict[name]):\n                visit(dep)")
M("c08-deps-not-visited", "C08", "C08.R3", FRF, "            for dep in sorted(dependencies_dict[name]):\n                visit(dep)\n", "")
M("c08-deps-from-unpacked", "C08", "C08.R3", FRF, "dependencies_dict[name] = generator.get_fragments_used_as_mixins()", "dependencies_dict[name] = generator.get_unpacked_fragments()")
M("c08-class-order-by-definition", "C08", "C08.R3", FRF, "            sorted_class_defs.extend(class_defs_dict[name])\n\n        return sorted_class_defs", "            pass\n        for name in class_defs_dict:\n            sorted_class_defs.extend(class_defs_dict[name])\n\n        return sorted_class_defs")
M("c08-mixin-import-missing", "C08", "C08.R4", RTF, "            self._imports.append(\n                generate_import_from(\n                    names=[arguments[MIXIN_IMPORT_NAME]],\n                    from_=arguments[MIXIN_FROM_NAME],\n                )\n            )\n", "")
M("c08-mixin-on-definition-ignored", "C08", "C08.R4", RTF, "                extra_bases=self._get_extra_bases_from_mixin_directives(\n                    self.operation_definition\n                ),", "                extra_bases=None,")
M("c08-field-mixin-wrong-node", "C08", "C08.R4", RTF, "extra_bases=self._get_extra_bases_from_mixin_directives(field),", "extra_bases=self._get_extra_bases_from_mixin_directives(self.operation_definition),")
M("c08-benign-rename", "C08", None, FRF, "sorted_names", "ordered", count=0)

# ----------------------------------------------------------------------- C02 (result side)
M("c02-mixin-kept-on-fragments", "C02", "C02.R2", RTF, "            def enter_fragment_definition(", "            def enter_fragment_definition_(")
M("c02-mixin-filter-inverted", "C02", "C02.R2", RTF, "d for d in node.directives or [] if d.name.value != MIXIN_NAME\n                )\n                return node\n\n            @staticmethod", "d for d in node.directives or [] if d.name.value == MIXIN_NAME\n                )\n                return node\n\n            @staticmethod")
M("c02-no-deepcopy", "C02", "C02.R2", RTF, "copied_node = deepcopy(node)", "copied_node = node")
M("c02-fragment-printed-raw", "C02", "C02.R2", RTF, "                operation_str += \"\\n\\n\" + print_ast(\n                    self._get_node_without_mixin_directive(\n                        self.fragments_definitions[used_fragment]\n                    )\n                )", "                operation_str += \"\\n\\n\" + print_ast(\n                    self.fragments_definitions[used_fragment]\n                )")
M("c02-directives-stripped", "C02", "C02.R3", RTF, "            field_name = self._get_field_name(field)\n", "            field_name = self._get_field_name(field)\n            field.directives = ()\n")
M("c02-alias-cleared", "C02", "C02.R3", CG + "result_fields.py", "    default_value: Optional[ast.Constant] = None\n    context = FieldContext(", "    default_value: Optional[ast.Constant] = None\n    field.alias = None\n    context = FieldContext(")
M("c02-closure-not-recursive", "C02", "C02.R4", RTF, "                names.add(name)\n                names = names.union(\n                    self._get_fragments_names(\n                        self.fragments_definitions[name].selection_set\n                    )\n                )", "                names.add(name)")
M("c02-closure-skips-inline", "C02", "C02.R4", RTF, "isinstance(node, (FieldNode, InlineFragmentNode)) and node.selection_set", "isinstance(node, FieldNode) and node.selection_set")
M("c02-unpacked-definitions-missing", "C02", "C02.R4", RTF, "        return fragments_names.union(self._unpacked_fragments)", "        return fragments_names")
M("c02-fragments-only-with-mixins", "C02", "C02.R4", RTF, "        if self._fragments_used_as_mixins or self._unpacked_fragments:", "        if self._fragments_used_as_mixins:")

# ----------------------------------------------------------------------- C02 (package side)
PKF = CG + "package.py"
CLF = CG + "client.py"
M("c02-code-replace", "C02", "C02.R1", "utils.py", "    if remove_unused_imports:\n        code = fix_code(code, remove_all_unused_imports=True)", "    code = code.replace(\"\\\\t\", \"    \")\n    if remove_unused_imports:\n        code = fix_code(code, remove_all_unused_imports=True)")
M("c02-client-code-regex", "C02", "C02.R1", PKF, "        if self.plugin_manager:\n            code = self.plugin_manager.generate_client_code(code)\n        client_file_path.write_text(code)", "        code = re.sub(r\"[ ]+$\", \"\", code)\n        client_file_path.write_text(code)")
M("c02-blank-line-filter-strips", "C02", "C02.R1", "utils.py", "            code_lines.append(line)\n    return", "            code_lines.append(line.rstrip())\n    return")
M("c02-opname-from-method-name", "C02", "C02.R5", CLF, "                generate_keyword(\n                    value=generate_constant(operation_name), arg=\"operation_name\"\n                ),\n                generate_keyword(\n                    value=generate_name(variable_names[self._variables_dict_variable]),", "                generate_keyword(\n                    value=generate_constant(operation_name.lower()), arg=\"operation_name\"\n                ),\n                generate_keyword(\n                    value=generate_name(variable_names[self._variables_dict_variable]),")
M("c02-opname-empty", "C02", "C02.R5", CLF, 'operation_name = definition.name.value if definition.name else ""', 'operation_name = ""')
M("c02-lines-stripped", "C02", "C02.R5", CLF, '[generate_constant(l + "\\n") for l in operation_str.splitlines()]', '[generate_constant(l.strip() + "\\n") for l in operation_str.splitlines()]')
M("c02-lines-nonempty", "C02", "C02.R5", CLF, '[generate_constant(l + "\\n") for l in operation_str.splitlines()]', '[generate_constant(l + "\\n") for l in operation_str.splitlines() if l]')
M("c02-kwargs-not-forwarded", "C02", "C02.R5", CLF, "                generate_keyword(value=generate_name(KWARGS_NAMES)),\n            ],\n        )\n\n    def _generate_data_retrieval", "            ],\n        )\n\n    def _generate_data_retrieval")
M("c02-validation-rules-fewer", "C02", "C02.R6", "schema.py", "rules=[r for r in specified_rules if r is not NoUnusedFragmentsRule],", "rules=[r for r in specified_rules[:10] if r is not NoUnusedFragmentsRule],")
M("c02-validation-errors-ignored", "C02", "C02.R6", "schema.py", "    if validation_errors:\n        raise InvalidOperationForSchema(", "    if len(validation_errors) > 1:\n        raise InvalidOperationForSchema(")

# ----------------------------------------------------------------------- C04
M("c04-reserved-type", "C04", "C04.R1", RTF, "return GraphQLField(type_=GraphQLNonNull(type_=GraphQLString))", "return GraphQLField(type_=GraphQLNonNull(type_=GraphQLScalarType(name=\"String\")))")
M("c04-enums-not-reported", "C04", "C04.R2", PKF, "        enums_file_path.write_text(code)\n        self._generated_files.append(enums_file_path.name)", "        enums_file_path.write_text(code)")
M("c04-report-unsorted", "C04", "C04.R2", PKF, "        return sorted(self._generated_files)", "        return self._generated_files")
M("c04-copy-reports-source-only-when-plugin", "C04", "C04.R2", PKF, "            target_path.write_text(code)\n            self._generated_files.append(target_path.name)", "            target_path.write_text(code)\n            if self.plugin_manager:\n                self._generated_files.append(target_path.name)")
M("c04-validate-after-mkdir", "C04", "C04.R3", PKF, "        self._validate_unique_file_names()\n        if not self.package_path.exists():\n            self.package_path.mkdir()\n", "        if not self.package_path.exists():\n            self.package_path.mkdir()\n        self._validate_unique_file_names()\n")
M("c04-fragments-name-unchecked", "C04", "C04.R3", PKF, '                f"{self.fragments_module_name}.py",\n            ]\n            + list(self._result_types_files.keys())', '            ]\n            + list(self._result_types_files.keys())')
M("c04-includes-unchecked", "C04", "C04.R3", PKF, "            + list(self._result_types_files.keys())\n            + [f.name for f in self.files_to_include]\n        )", "            + list(self._result_types_files.keys())\n        )")
M("c04-all-missing-names", "C04", "C04.R5", CG + "init_file.py", "constants_names.extend([n.name for n in import_.names])", "constants_names.extend([n.name for n in import_.names[:1]])")
M("c04-rebuild-missing", "C04", "C04.R6", RTF, "            for class_def in self._class_defs\n            if model_has_forward_refs(class_def)\n        ]", "            for class_def in self._class_defs[:1]\n            if model_has_forward_refs(class_def)\n        ]")
M("c04-rebuild-before-classes", "C04", "C04.R6", CG + "input_types.py", "            cast(List[ast.stmt], self._imports)\n            + cast(List[ast.stmt], class_defs)\n            + cast(List[ast.stmt], model_rebuild_calls)", "            cast(List[ast.stmt], self._imports)\n            + cast(List[ast.stmt], model_rebuild_calls)\n            + cast(List[ast.stmt], class_defs)")
M("c04-keyerror-raised", "C04", "C04.R7", CG + "arguments.py", '            raise ParsingError(f"Argument type {name} not found in schema.")', '            raise KeyError(f"Argument type {name} not found in schema.")')
M("c04-enum-import-missing", "C04", "C04.R4", RTF, "            self._used_enums.extend(field_context.enums)\n", "")
M("c04-result-scalar-imports-missing", "C04", "C04.R4", RTF, "            self._imports.extend(generate_scalar_imports(scalar_data))\n\n        if (\n            isinstance(self.operation_definition", "            pass\n\n        if (\n            isinstance(self.operation_definition")
M("c04-return-type-import-missing", "C04", "C04.R4", CLF, "        self._add_import(\n            generate_import_from(names=[return_type], from_=return_type_module, level=1)\n        )", "        pass")
M("c04-used-inputs-not-recorded", "C04", "C04.R4", CG + "arguments.py", "            self._used_inputs.append(name)", "            pass")
M("c04-enum-not-recorded-result", "C04", "C04.R4", RFF, "    context.enums.append(type_.name)\n", "")
M("c04-benign-rename", "C04", None, PKF, "enums_file_path", "enums_path", count=0)

# ----------------------------------------------------------------------- C09
M("c09-enums-before-client", "C09", "C09.R1", PKF, "        self._generate_client()\n        self._generate_enums()\n", "        self._generate_enums()\n        self._generate_client()\n")
M("c09-enums-before-fragments", "C09", "C09.R1", PKF, "        self._generate_result_types()\n        self._generate_fragments()\n", "        self._generate_result_types()\n        self._generate_enums()\n        self._generate_fragments()\n")
M("c09-fragment-enums-dropped", "C09", "C09.R2", PKF, "        self._used_enums.extend(self.fragments_generator.get_used_enums())\n", "")
M("c09-arg-enums-dropped", "C09", "C09.R2", PKF, "        self._used_enums.extend(\n            self.client_generator.arguments_generator.get_used_enums()\n        )\n", "")
M("c09-result-enums-dropped", "C09", "C09.R2", PKF, "        self._used_enums.extend(query_types_generator.get_used_enums())\n", "")
M("c09-input-enums-before-generate", "C09", "C09.R3", PKF, "        if self.include_all_inputs:\n            module = self.input_types_generator.generate()", "        self._used_enums.extend(self.input_types_generator.get_used_enums())\n        if self.include_all_inputs:\n            module = self.input_types_generator.generate()")
M("c09-closure-first-only", "C09", "C09.R4", CG + "input_types.py", "        for name in types_to_include:\n            types_names.update(self._get_dependencies_of_type(name))", "        for name in types_to_include[:1]:\n            types_names.update(self._get_dependencies_of_type(name))")
M("c09-closure-not-transitive", "C09", "C09.R4", CG + "input_types.py", "                for neighbor in self._dependencies[node]:\n                    dfs(neighbor)", "                for neighbor in self._dependencies[node]:\n                    result.append(neighbor)")
M("c09-deps-only-required", "C09", "C09.R4", CG + "input_types.py", "            self._save_dependencies(root_type=definition.name, field_type=field_type)", "            if field_implementation.value is None:\n                self._save_dependencies(root_type=definition.name, field_type=field_type)")
M("c09-enum-deps-as-inputs", "C09", "C09.R4", CG + "input_types.py", "            self._used_enums[root_type].append(field_type)", "            self._dependencies[root_type].append(field_type)")
M("c09-used-enums-all-inputs", "C09", "C09.R4", CG + "input_types.py", "        for input_name in self._generated_public_names:\n            enums.extend(self._used_enums[input_name])", "        for input_name in self._generated_public_names[:-1]:\n            enums.extend(self._used_enums[input_name])")
M("c09-pruned-inputs-from-all", "C09", "C09.R3", PKF, "            used_inputs = self.client_generator.arguments_generator.get_used_inputs()\n", "            used_inputs = self.client_generator.arguments_generator.get_used_inputs()[:1]\n")

# ----------------------------------------------------------------------- C17
M("c17-keyword-accepted", "C17", "C17.R2", "settings.py", "    if not name.isidentifier() or iskeyword(name):", "    if not name.isidentifier() and not iskeyword(name):")
M("c17-fragments-name-unchecked", "C17", "C17.R1", "settings.py", "        assert_string_is_valid_python_identifier(self.fragments_module_name)\n", "")
M("c17-client-name-checked-late", "C17", "C17.R1", "settings.py", "        assert_string_is_valid_python_identifier(self.client_name)\n", "        if self.async_client:\n            assert_string_is_valid_python_identifier(self.client_name)\n")
M("c17-no-schema-source-ok", "C17", "C17.R1", "settings.py", "        if not self.schema_path and not self.remote_schema_url:", "        if not self.schema_path and self.remote_schema_url:")
M("c17-dir-check-inverted", "C17", "C17.R2", "settings.py", "    if not Path(path).is_dir():", "    if Path(path).is_file():")
M("c17-target-types", "C17", "C17.R2", "settings.py", 'if file_type not in ("py", "graphql", "gql"):', 'if file_type not in ("py", "graphql", "gql", "txt"):')
M("c17-header-var-empty-ok", "C17", "C17.R2", "settings.py", "        if not var_value:\n            raise InvalidConfiguration(\n                f\"Environment variable {env_var_name} not found.\"\n            )\n        return var_value", "        return var_value or \"\"")
M("c17-schema-validated-after-generate", "C17", "C17.R4", "main.py", "    schema = plugin_manager.process_schema(schema)\n    assert_valid_schema(schema)\n\n    fragments = []", "    schema = plugin_manager.process_schema(schema)\n\n    fragments = []")
M("c17-queries-validated-late", "C17", "C17.R4", "main.py", "    generated_files = package_generator.generate()\n", "    generated_files = package_generator.generate()\n    if settings.queries_path:\n        get_graphql_queries(settings.queries_path, schema)\n")
M("c17-settings-mkdir", "C17", "C17.R4", "config.py", "    section = get_section(config_dict).copy()\n", "    section = get_section(config_dict).copy()\n    Path(section.get(\"target_package_path\", \".\")).mkdir(exist_ok=True)\n")
M("c17-syntax-error-raw", "C17", "C17.R4", "schema.py", "    except GraphQLSyntaxError as exc:\n        raise InvalidGraphqlSyntax(f\"Invalid graphql syntax in file {path}\") from exc", "    except GraphQLSyntaxError:\n        raise")
M("c17-config-mutated", "C17", "C17.R6", "config.py", "    section = get_section(config_dict).copy()\n", "    section = get_section(config_dict)\n")
M("c17-unknown-keys-kept", "C17", "C17.R6", "config.py", "                for key, value in section.items()\n                if key in settings_fields_names\n            }\n        )\n    except TypeError as exc:\n        missing_fields = settings_fields_names.difference(section)\n        raise MissingConfiguration(\n            f\"Missing configuration fields: {', '.join(missing_fields)}\"\n        ) from exc\n\n\ndef get_section", "                for key, value in section.items()\n            }\n        )\n    except TypeError as exc:\n        missing_fields = settings_fields_names.difference(section)\n        raise MissingConfiguration(\n            f\"Missing configuration fields: {', '.join(missing_fields)}\"\n        ) from exc\n\n\ndef get_section")
M("c17-scalar-keyerror", "C17", "C17.R6", "config.py", "    except KeyError as exc:\n        raise MissingConfiguration(\n            \"Missing 'type' field for scalar definition\"\n        ) from exc", "    except KeyError:\n        raise")
M("c17-benign-reorder", "C17", None, "settings.py", "        assert_string_is_valid_python_identifier(self.enums_module_name)\n        assert_string_is_valid_python_identifier(self.input_types_module_name)\n", "        assert_string_is_valid_python_identifier(self.input_types_module_name)\n        assert_string_is_valid_python_identifier(self.enums_module_name)\n")

# ----------------------------------------------------------------------- C05
M("c05-nonnull-still-nullable", "C05", "C05.R1", RFF, "            type_=type_.of_type,\n            context=context,\n            nullable=False,\n            class_name=class_name,\n            add_type_name=False,\n        )\n\n    raise ParsingError", "            type_=type_.of_type,\n            context=context,\n            nullable=True,\n            class_name=class_name,\n            add_type_name=False,\n        )\n\n    raise ParsingError")
M("c05-list-items-inherit", "C05", "C05.R1", RFF, "        type_=cast(CodegenResultFieldType, type_.of_type),\n        context=context,\n        nullable=True,", "        type_=cast(CodegenResultFieldType, type_.of_type),\n        context=context,\n        nullable=nullable,")
M("c05-list-always-optional", "C05", "C05.R1", RFF, "    return generate_list_annotation(slice_=slice_, nullable=nullable)", "    return generate_list_annotation(slice_=slice_, nullable=True)")
M("c05-enum-always-optional", "C05", "C05.R2", RFF, "    context.enums.append(type_.name)\n    return generate_annotation_name(type_.name, nullable)", "    context.enums.append(type_.name)\n    return generate_annotation_name(type_.name, True)")
M("c05-scalar-drops-flag", "C05", "C05.R1", RFF, "        return parse_scalar_type(type_=type_, nullable=nullable, context=context)", "        return parse_scalar_type(type_=type_, nullable=True, context=context)")
M("c05-union-members-nullable", "C05", "C05.R1", RFF, "            type_=subtype,\n            context=context,\n            nullable=False,", "            type_=subtype,\n            context=context,\n            nullable=True,")
M("c05-entry-nonnull", "C05", "C05.R1", RFF, "        type_=type_,\n        context=context,\n        nullable=True,\n        add_type_name=False,", "        type_=type_,\n        context=context,\n        nullable=False,\n        add_type_name=False,")
M("c05-annotation-name-inverted", "C05", "C05.R2", "codegen.py", "    result = ast.Name(id=name)\n    return result if not nullable else generate_nullable_annotation(result)", "    result = ast.Name(id=name)\n    return result if nullable else generate_nullable_annotation(result)")
M("c05-union-never-optional", "C05", "C05.R2", "codegen.py", "    result = ast.Subscript(value=ast.Name(id=UNION), slice=ast.Tuple(elts=types))\n    return result if not nullable else generate_nullable_annotation(result)", "    result = ast.Subscript(value=ast.Name(id=UNION), slice=ast.Tuple(elts=types))\n    return result")
M("c05-mixin-makes-optional", "C05", "C05.R2", RFF, "    nullable_directives = (INCLUDE_DIRECTIVE_NAME, SKIP_DIRECTIVE_NAME)", "    nullable_directives = (INCLUDE_DIRECTIVE_NAME, SKIP_DIRECTIVE_NAME, \"mixin\")")
M("c05-skip-not-optional", "C05", "C05.R2", RFF, "    nullable_directives = (INCLUDE_DIRECTIVE_NAME, SKIP_DIRECTIVE_NAME)", "    nullable_directives = (INCLUDE_DIRECTIVE_NAME,)")
M("c05-conditional-no-default", "C05", "C05.R2", RFF, "        return annotation, generate_constant(None)\n\n    return annotation, None", "        return annotation, None\n\n    return annotation, None")
M("c05-typename-str", "C05", "C05.R3", RFF, "    return generate_subscript(value=generate_name(LITERAL), slice_=slice_)", "    return generate_name(\"str\")")
M("c05-typename-literal-skipped", "C05", "C05.R3", RFF, "    if field.name and field.name.value == TYPENAME_FIELD_NAME and typename_values:", "    if field.name and field.name.value == TYPENAME_ALIAS and typename_values:")
M("c05-id-int", "C05", "C05.R4", CG + "constants.py", '    "ID": "str",', '    "ID": "int",')
M("c05-unknown-scalar-str", "C05", "C05.R4", RFF, "    return generate_annotation_name(ANY, nullable)", "    return generate_annotation_name(\"str\", nullable)")
M("c05-benign-kw-order", "C05", None, RFF, "        return parse_scalar_type(type_=type_, nullable=nullable, context=context)", "        return parse_scalar_type(nullable=nullable, type_=type_, context=context)")

# ----------------------------------------------------------------------- C06
IFF = CG + "input_fields.py"
ITF = CG + "input_types.py"
M("c06-list-items-inherit", "C06", "C06.R1", IFF, "type_=type_.of_type, nullable=True, custom_scalars=custom_scalars", "type_=type_.of_type, nullable=nullable, custom_scalars=custom_scalars")
M("c06-nonnull-ignored", "C06", "C06.R1", IFF, "            type_=type_.of_type, nullable=False, custom_scalars=custom_scalars", "            type_=type_.of_type, nullable=nullable, custom_scalars=custom_scalars")
M("c06-enum-never-optional", "C06", "C06.R1", IFF, "            generate_annotation_name(name=type_.name, nullable=nullable),\n            type_.name,", "            generate_annotation_name(name=type_.name, nullable=False),\n            type_.name,")
M("c06-float-as-int", "C06", "C06.R2", IFF, "        return generate_constant(float(node.value))", "        return generate_constant(int(float(node.value)))")
M("c06-bool-string", "C06", "C06.R2", IFF, "        return generate_constant(bool(node.value))", "        return generate_constant(str(node.value))")
M("c06-null-default-dropped", "C06", "C06.R2", IFF, "    if isinstance(node, NullValueNode):\n        return generate_constant(None)\n", "")
M("c06-list-first-only", "C06", "C06.R2", IFF, "                    for v in node.values\n", "                    for v in node.values[:1]\n")
M("c06-object-keys-python", "C06", "C06.R2", IFF, "keys=[generate_constant(f.name.value) for f in node.fields],", "keys=[generate_constant(f.name.value.lower()) for f in node.fields],")
M("c06-nullable-becomes-required", "C06", "C06.R4", IFF, "        return generate_constant(None)\n\n    return None\n\n\ndef parse_input_const_value_node", "        return None\n\n    return None\n\n\ndef parse_input_const_value_node")
M("c06-default-ignored", "C06", "C06.R4", IFF, "    if node and node.default_value:\n        return parse_input_const_value_node(", "    if node and node.default_value and isinstance(node.type, NonNullTypeNode):\n        return parse_input_const_value_node(")
M("c06-alias-drops-default", "C06", "C06.R4", ITF, "                field_with_alias.keywords.append(\n                    generate_keyword(value=field_implementation.value, arg=\"default\")\n                )", "                pass")
M("c06-alias-drops-factory", "C06", "C06.R4", ITF, "                field_with_alias.keywords.extend(field_implementation.value.keywords)", "                pass")
M("c06-populate-by-name-off", "C06", "C06.R4", D + "base_model.py", "        populate_by_name=True,\n", "")

# ----------------------------------------------------------------------- C07
SCF = CG + "scalars.py"
M("c07-parse-always", "C07", "C07.R1", SCF, "    if data.parse_name:\n        return generate_subscript(", "    if data.type_name:\n        return generate_subscript(")
M("c07-serialize-on-results", "C07", "C07.R1", SCF, "                        func=generate_name(BEFORE_VALIDATOR),\n                        args=[generate_name(data.parse_name)],", "                        func=generate_name(BEFORE_VALIDATOR),\n                        args=[generate_name(data.serialize_name)],")
M("c07-after-validator", "C07", "C07.R1", CG + "constants.py", 'BEFORE_VALIDATOR = "BeforeValidator"', 'BEFORE_VALIDATOR = "AfterValidator"')
M("c07-optional-inside-annotated", "C07", "C05.R4", RFF, "        if nullable:\n            annotation = generate_nullable_annotation(annotation)\n        return annotation\n\n    return generate_annotation_name(ANY, nullable)", "        return annotation\n\n    return generate_annotation_name(ANY, nullable)")
M("c07-input-optional-dropped", "C07", "C07.R1", IFF, "            if nullable:\n                annotation = generate_nullable_annotation(annotation)\n            return (annotation, type_.name)", "            return (annotation, type_.name)")
M("c07-scalar-import-missing", "C07", "C04.R4", SCF, "            imports.append(generate_import_from(names=[object_name], from_=module_name))", "            pass")
M("c07-serialize-not-imported", "C07", "C04.R4", SCF, "name for name in (self.type_, self.serialize, self.parse) if name", "name for name in (self.type_, self.parse) if name")
M("c07-convert-value-skips-lists", "C07", "C11.R7", A, "        if isinstance(value, list):\n            return [self._convert_value(item) for item in value]\n        return value", "        return value")

# ----------------------------------------------------------------------- C03
ARF = CG + "arguments.py"
M("c03-key-python-name", "C03", "C03.R1", ARF, "            dict_.keys.append(generate_constant(org_name))", "            dict_.keys.append(generate_constant(name))")
M("c03-optional-default-none", "C03", "C03.R1", ARF, "            defaults=[generate_name(UNSET_NAME) for _ in optional_args],", "            defaults=[generate_constant(None) for _ in optional_args],")
M("c03-nullable-required", "C03", "C03.R1", ARF, "                optional_args.append(arg)\n            else:\n                required_args.append(arg)", "                required_args.append(arg)\n            else:\n                required_args.append(arg)")
M("c03-required-optional", "C03", "C03.R1", ARF, "            else:\n                required_args.append(arg)\n", "            else:\n                optional_args.append(arg)\n")
M("c03-value-other-name", "C03", "C03.R1", ARF, "            dict_.values.append(self._get_dict_value(name, used_custom_scalar))", "            dict_.values.append(self._get_dict_value(org_name, used_custom_scalar))")
M("c03-alias-when-equal-only", "C03", "C03.R4", ITF, "            if name != org_name:\n                field_implementation.value = self._process_field_value(", "            if name == org_name:\n                field_implementation.value = self._process_field_value(")
M("c03-alias-python-name", "C03", "C03.R4", ITF, "                    field_implementation=field_implementation, alias=org_name", "                    field_implementation=field_implementation, alias=name")
M("c03-locals-not-renamed", "C03", "C03.R5", CLF, '                f"_{variable}" if variable in argument_names else variable', "                variable")
M("c03-unset-sent-as-null", "C03", "C11.R7", S, "            if value is not UNSET\n", "")
M("c03-exclude-unset-dropped", "C03", "C11.R7", A, "value.model_dump(by_alias=True, exclude_unset=True)", "value.model_dump(by_alias=True)")

# ----------------------------------------------------------------------- C18
M("c18-regex-digits-dropped", "C18", "C18.R1", "utils.py", '    words = re.findall(rf"{lowercase_words}|{uppercase_words}|{numbers}", name)', '    words = re.findall(rf"{lowercase_words}|{uppercase_words}", name)')
M("c18-regex-lookahead", "C18", "C18.R1", "utils.py", r'uppercase_words = r"[A-Z]+(?=[A-Z][a-z]|\d|\W|_|$)"', r'uppercase_words = r"[A-Z]+(?=[A-Z][a-z]|\d|\W|$)"')
M("c18-regex-lower-needs-upper", "C18", "C18.R1", "utils.py", 'lowercase_words = r"[A-Z]?[a-z]+"', 'lowercase_words = r"[A-Z][a-z]+"')
M("c18-tokens-truncated", "C18", "C18.R1", "utils.py", 'return "_".join(map(str.lower, words))', 'return "_".join(map(str.lower, words[:3]))')
M("c18-pascal-drops", "C18", "C18.R1", "utils.py", 'return "".join(n[:1].upper() + n[1:] for n in name.split("_"))', 'return "".join(n[:1].upper() + n[1:].lower() for n in name.split("_"))')
M("c18-strip-after-escape", "C18", "C18.R2", "utils.py", '    if trim_leading_underscore:\n        processed_name = processed_name.lstrip("_")\n    if iskeyword(processed_name):\n        processed_name += "_"\n', '    if iskeyword(processed_name):\n        processed_name += "_"\n    if trim_leading_underscore:\n        processed_name = processed_name.lstrip("_")\n')
M("c18-keyword-before-snake", "C18", "C18.R2", "utils.py", '    processed_name = name\n    if convert_to_snake_case:\n        processed_name = str_to_snake_case(processed_name)\n    if trim_leading_underscore:\n        processed_name = processed_name.lstrip("_")\n    if iskeyword(processed_name):\n        processed_name += "_"\n', '    processed_name = name\n    if iskeyword(processed_name):\n        processed_name += "_"\n    if convert_to_snake_case:\n        processed_name = str_to_snake_case(processed_name)\n    if trim_leading_underscore:\n        processed_name = processed_name.lstrip("_")\n')
M("c18-benign-merged-escapes", "C18", None, "utils.py", '    if iskeyword(processed_name):\n        processed_name += "_"\n    if (\n        handle_pydantic_resrved_field_names\n        and processed_name in PYDANTIC_RESERVED_FIELD_NAMES\n    ):\n        processed_name += "_"', '    if iskeyword(processed_name) or (\n        handle_pydantic_resrved_field_names\n        and processed_name in PYDANTIC_RESERVED_FIELD_NAMES\n    ):\n        processed_name += "_"')
M("c18-reserved-on-raw-name", "C18", "C18.R8", "utils.py", '        and processed_name in PYDANTIC_RESERVED_FIELD_NAMES', '        and name in PYDANTIC_RESERVED_FIELD_NAMES')
M("c18-trim-only-when-snake", "C18", "C18.R8", "utils.py", '    if trim_leading_underscore:\n        processed_name = processed_name.lstrip("_")', '    if trim_leading_underscore and convert_to_snake_case:\n        processed_name = processed_name.lstrip("_")')
M("c18-model-gains-public-method", "C18", "C18.R7", "client_generators/dependencies/base_model.py", '        protected_namespaces=(),\n    )\n', '        protected_namespaces=(),\n    )\n\n    def to_dict(self):\n        return self.model_dump(by_alias=True)\n')
M("c18-reserved-callables-only", "C18", "C18.R7", "utils.py", '    name for name in dir(BaseModel) if not name.startswith("_")\n', '    name for name in dir(BaseModel) if not name.startswith("_") and callable(getattr(BaseModel, name))\n')
M("c18-keyword-prefix", "C18", "C18.R8", "utils.py", '    if iskeyword(processed_name):\n        processed_name += "_"\n    if (', '    if iskeyword(processed_name):\n        processed_name = "_" + processed_name\n    if (')
M("c18-reserved-not-handled-results", "C18", "C18.R2", RTF, "            handle_pydantic_resrved_field_names=True,\n        )\n\n    def _get_field_from_schema", "            handle_pydantic_resrved_field_names=False,\n        )\n\n    def _get_field_from_schema")
M("c18-reserved-list-short", "C18", "C18.R2", "utils.py", "    name for name in dir(BaseModel) if not name.startswith(\"_\")\n", "    name for name in dir(BaseModel) if name.startswith(\"model_\")\n")
M("c18-name-cache", "C18", "C18.R6", "utils.py", '    processed_name = name\n    if convert_to_snake_case:', '    global _LAST\n    _LAST = name\n    processed_name = name\n    if convert_to_snake_case:')

# ----------------------------------------------------------------------- C19
M("c19-extension-dropped", "C19", "C19.R2", "schema.py", 'extensions = (".graphql", ".graphqls", ".gql")', 'extensions = (".graphql", ".gql")')
M("c19-not-recursive", "C19", "C19.R2", "schema.py", 'path.glob("**/*")', 'path.glob("*")')
M("c19-errors-ignored", "C19", "C19.R3", "schema.py", "    errors = response_json.get(\"errors\")\n    if errors:\n        raise IntrospectionError(f\"Introspection errors: {errors}\")\n", "")
M("c19-status-ignored", "C19", "C19.R3", "schema.py", "    if not response.is_success:\n        raise IntrospectionError(\n            \"Failure of remote schema introspection. \"\n            f\"HTTP status code: {response.status_code}\"\n        )\n", "")
M("c19-json-error-raw", "C19", "C19.R3", "schema.py", "    except ValueError as exc:\n        raise IntrospectionError(\"Introspection result is not a valid json.\") from exc", "    except KeyError as exc:\n        raise IntrospectionError(\"Introspection result is not a valid json.\") from exc")
M("c19-data-none-accepted", "C19", "C19.R3", "schema.py", "    if not isinstance(data, dict):\n        raise IntrospectionError(\"Invalid data key in introspection result.\")\n", "")
M("c19-invalid-url-raw", "C19", "C19.R3", "schema.py", "    except httpx.InvalidURL as exc:\n        raise IntrospectionError(f\"Invalid remote schema url: {url}\") from exc", "    except httpx.InvalidURL:\n        raise")
M("c19-verify-dropped", "C19", "C19.R4", "schema.py", "            headers=headers,\n            verify=verify_ssl,\n        )", "            headers=headers,\n        )")
M("c19-headers-not-forwarded", "C19", "C19.R4", "schema.py", "introspect_remote_schema(url=url, headers=headers, verify_ssl=verify_ssl)", "introspect_remote_schema(url=url, headers=None, verify_ssl=verify_ssl)")
M("c19-headers-unresolved", "C19", "C19.R4", "settings.py", "        self.remote_schema_headers = resolve_headers(self.remote_schema_headers)\n", "")
M("c19-main-verify-const", "C19", "C19.R4", "main.py", "            verify_ssl=settings.remote_schema_verify_ssl,\n        )\n\n    plugin_manager = PluginManager(\n        schema=schema,\n        config_dict=config_dict,\n        plugins_types=get_plugins_types(settings.plugins),\n    )\n    schema = add_mixin", "            verify_ssl=True,\n        )\n\n    plugin_manager = PluginManager(\n        schema=schema,\n        config_dict=config_dict,\n        plugins_types=get_plugins_types(settings.plugins),\n    )\n    schema = add_mixin")
M("c19-descriptions-from-ast", "C19", "C19.R1", CG + "enums.py", "            name = val_name if not iskeyword(val_name) else val_name + \"_\"\n", "            name = val_name if not iskeyword(val_name) else val_name + \"_\"\n            _ = val_def.ast_node\n")

# ----------------------------------------------------------------------- C16
GSN = "graphql_schema_generators/"
M("c16-description-dropped", "C16", "C16.R1", GSN + "named_types.py", "            generate_keyword(\n                value=generate_constant(type_.description), arg=\"description\"\n            ),\n            generate_keyword(value=generate_enum_values(type_.values), arg=\"values\"),", "            generate_keyword(value=generate_enum_values(type_.values), arg=\"values\"),")
M("c16-deprecation-dropped", "C16", "C16.R1", GSN + "fields.py", "            generate_keyword(\n                value=generate_constant(field.deprecation_reason),\n                arg=\"deprecation_reason\",\n            ),\n", "")
M("c16-specified-by-dropped", "C16", "C16.R1", GSN + "named_types.py", "            generate_keyword(\n                value=generate_constant(type_.specified_by_url), arg=\"specified_by_url\"\n            ),\n", "")
M("c16-repeatable-dropped", "C16", "C16.R1", GSN + "directives.py", "            generate_keyword(\n                value=generate_constant(directive.is_repeatable), arg=\"is_repeatable\"\n            ),\n", "")
M("c16-schema-description-dropped", "C16", "C16.R1", GSN + "schema.py", "            generate_keyword(\n                value=generate_constant(schema.description), arg=\"description\"\n            ),\n", "")
M("c16-default-from-description", "C16", "C16.R2", GSN + "fields.py", "                value=generate_constant(arg.default_value), arg=\"default_value\"", "                value=generate_constant(arg.description), arg=\"default_value\"")
M("c16-input-default-none", "C16", "C16.R2", GSN + "fields.py", "                value=generate_constant(input_field.default_value), arg=\"default_value\"", "                value=generate_constant(None), arg=\"default_value\"")
M("c16-mutation-is-query", "C16", "C16.R2", GSN + "schema.py", "                value=get_optional_named_type(schema.mutation_type, type_map_name),", "                value=get_optional_named_type(schema.query_type, type_map_name),")
M("c16-enum-value-name", "C16", "C16.R2", GSN + "fields.py", "            generate_keyword(value=generate_constant(value.value), arg=\"value\"),", "            generate_keyword(value=generate_constant(value.description), arg=\"value\"),")
M("c16-interfaces-of-interfaces-dropped", "C16", "C16.R1", GSN + "named_types.py", "            generate_keyword(\n                value=get_list_of_named_types(\n                    [i.name for i in type_.interfaces],\n                    type_map_name,\n                    GraphQLInterfaceType.__name__,\n                ),\n                arg=\"interfaces\",\n            ),\n            generate_keyword(\n                value=generate_field_map(type_.fields, type_map_name), arg=\"fields\"\n            ),\n        ],\n    )\n\n\ndef generate_union_type", "            generate_keyword(\n                value=generate_field_map(type_.fields, type_map_name), arg=\"fields\"\n            ),\n        ],\n    )\n\n\ndef generate_union_type")
M("c16-field-keys-lower", "C16", "C16.R2", GSN + "fields.py", "        fields_dict.keys.append(generate_constant(name))", "        fields_dict.keys.append(generate_constant(name.lower()))")
M("c16-union-kind-missing", "C16", "C16.R3", GSN + "named_types.py", "        GraphQLUnionType: generate_union_type,\n", "")
M("c16-nonnull-dropped", "C16", "C16.R3", GSN + "fields.py", "            func=generate_name(\"GraphQLNonNull\"),\n            args=[generate_field_type(type_.of_type, type_map_name)],", "            func=generate_name(\"GraphQLList\"),\n            args=[generate_field_type(type_.of_type, type_map_name)],")
M("c16-fields-eager", "C16", "C16.R4", GSN + "fields.py", "        fields_dict.values.append(generate_field(field, type_map_name))\n\n    return generate_lambda(body=fields_dict)", "        fields_dict.values.append(generate_field(field, type_map_name))\n\n    return fields_dict")
M("c16-interfaces-eager", "C16", "C16.R4", GSN + "utils.py", "    return generate_lambda(\n        body=generate_call(\n            func=generate_name(\"cast\"),\n            args=[\n                generate_subscript(\n                    value=generate_name(\"List\"),", "    return (\n        generate_call(\n            func=generate_name(\"cast\"),\n            args=[\n                generate_subscript(\n                    value=generate_name(\"List\"),")
M("c16-variable-name-fixed", "C16", "C16.R5", GSN + "schema.py", "                    target=generate_name(schema_variable_name),", "                    target=generate_name(\"schema\"),")
M("c16-type-map-name-fixed", "C16", "C16.R5", GSN + "utils.py", "                value=generate_name(type_map_name),\n                slice_=generate_constant(type_.name),", "                value=generate_name(\"type_map\"),\n                slice_=generate_constant(type_.name),")
M("c16-sdl-not-printed", "C16", "C16.R5", GSN + "schema.py", "Path(target_file_path).write_text(print_schema(schema), encoding=\"UTF-8\")", "Path(target_file_path).write_text(str(schema), encoding=\"UTF-8\")")
M("c16-standard-types-more", "C16", "C16.R5", GSN + "constants.py", '    "String",\n    "__Schema",', '    "String",\n    "Query",\n    "__Schema",')

# ----------------------------------------------------------------------- C15
PBF, PMF = "plugins/base.py", "plugins/manager.py"
M("c15-base-hook-strips", "C15", "C15.R1", PBF, "    def generate_client_code(self, generated_code: str) -> str:\n        return generated_code", "    def generate_client_code(self, generated_code: str) -> str:\n        return generated_code.strip()")
M("c15-base-hook-returns-other", "C15", "C15.R1", PBF, "    def generate_operation_str(\n        self, operation_str: str, operation_definition: ExecutableDefinitionNode\n    ) -> str:\n        return operation_str", "    def generate_operation_str(\n        self, operation_str: str, operation_definition: ExecutableDefinitionNode\n    ) -> str:\n        return str(operation_definition)")
M("c15-dispatch-reversed", "C15", "C15.R2", PMF, "        for plugin in self.plugins:\n            method = getattr(plugin, method_name)", "        for plugin in reversed(self.plugins):\n            method = getattr(plugin, method_name)")
M("c15-dispatch-not-threaded", "C15", "C15.R2", PMF, "            modified_obj = method(modified_obj, *args, **kwargs)", "            modified_obj = method(obj, *args, **kwargs)")
M("c15-dispatch-first-only", "C15", "C15.R2", PMF, "            modified_obj = method(modified_obj, *args, **kwargs)\n        return modified_obj", "            modified_obj = method(modified_obj, *args, **kwargs)\n            break\n        return modified_obj")
M("c15-hook-wrong-name", "C15", "C15.R2", PMF, 'return self._apply_plugins_on_object("generate_enums_code", generated_code)', 'return self._apply_plugins_on_object("generate_inputs_code", generated_code)')
M("c15-hook-drops-arg", "C15", "C15.R2", PMF, '            "generate_enum", class_def, enum_type=enum_type\n', '            "generate_enum", class_def\n')
M("c15-plugins-sorted", "C15", "C15.R18", PMF, "            for cls in plugins_types or []\n", "            for cls in sorted(plugins_types or [], key=lambda c: c.__name__)\n")
M("c15-hook-never-called", "C15", "C15.R3", CG + "enums.py", "        if self.plugin_manager:\n            module = self.plugin_manager.generate_enums_module(module)\n", "")
M("c15-noreimports-keeps-body", "C15", "C15.R4", "contrib/no_reimports.py", "        module.body = []\n", "        module.body = module.body[:1]\n        module.type_ignores = []\n")
M("c15-extract-drops-two", "C15", "C15.R4", "contrib/extract_operations.py", "        method_def.body = method_def.body[1:]", "        method_def.body = method_def.body[2:]")
M("c15-extract-rewrites-all-keywords", "C15", "C15.R4", "contrib/extract_operations.py", '            if keyword.arg == "query":\n', '            if keyword.arg:\n')
M("c15-shorter-touches-args", "C15", "C15.R4", "contrib/shorter_results.py", "        method_def.returns = return_node\n", "        method_def.returns = return_node\n        method_def.args.defaults = []\n")
M("c15-shorter-wrong-value", "C15", "C15.R5", "contrib/shorter_results.py", "                value=return_stmt.value, attr=single_field_return_class", "                value=generate_name(\"data\"), attr=single_field_return_class")
M("c15-shorter-two-fields", "C15", "C15.R5", "contrib/shorter_results.py", "    if len(fields) != 1:\n        return None", "    if len(fields) < 1:\n        return None")
M("c15-shorter-ignores-bases", "C15", "C15.R5", "contrib/shorter_results.py", "    fields = _get_all_fields(class_dict[current_return_class], class_dict)", "    fields = [f for f in class_dict[current_return_class].body if isinstance(f, ast.AnnAssign)]")
M("c15-extract-lines-stripped", "C15", "C15.R6", "contrib/extract_operations.py", '                    generate_constant(l + "\\n")\n                    for l in gql.splitlines()  # noqa: E741', '                    generate_constant(l.rstrip() + "\\n")\n                    for l in gql.splitlines()  # noqa: E741')
M("c15-extract-string-modified", "C15", "C15.R4", "contrib/extract_operations.py", "        self._operations_gqls[operation_name] = operation_str\n", "        self._operations_gqls[operation_name] = operation_str.strip()\n")
M("c15-forward-refs-level", "C15", "C15.R7", "contrib/client_forward_refs.py", "                    module=module_name, names=[], level=0", "                    module=module_name, names=[], level=1")
M("c15-typing-level", "C15", "C15.R7", "contrib/client_forward_refs.py", "                module=TYPE_CHECKING_MODULE,\n                names=[ast.alias(TYPE_CHECKING_FLAG)],\n                level=0,", "                module=TYPE_CHECKING_MODULE,\n                names=[ast.alias(TYPE_CHECKING_FLAG)],\n                level=1,")
M("c15-method-import-level", "C15", "C15.R7", "contrib/client_forward_refs.py", "                module=self.imported_classes[import_class_name],\n                names=[import_class],\n                level=0,", "                module=self.imported_classes[import_class_name],\n                names=[import_class],\n                level=1,")

# ----------------------------------------------------------------------- C14
CFF = CG + "custom_fields.py"
BOF = D + "base_operation.py"
M("c14-method-field-python-name", "C14", "C14.R1", CFF, "                            args=[generate_constant(org_name or name)],", "                            args=[generate_constant(name)],")
M("c14-attribute-field-python-name", "C14", "C14.R1", CFF, "                func=generate_name(field_name), args=[generate_constant(org_name)]", "                func=generate_name(field_name), args=[generate_constant(name)]")
M("c14-root-field-snake", "C14", "C14.R1", CG + "custom_operation.py", "                                value=generate_constant(value=operation_name),", "                                value=generate_constant(value=str_to_snake_case(operation_name)),")
M("c14-arg-key-python", "C14", "C14.R1", CG + "custom_arguments.py", "        return_arguments_keys.append(generate_constant(arg_name))", "        return_arguments_keys.append(generate_constant(name))")
M("c14-argument-node-unique-name", "C14", "C14.R1", BOF, '                GraphQLArgument(v["name"], k).to_ast()', '                GraphQLArgument(k, k).to_ast()')
M("c14-nested-variables-discarded", "C14", "C14.R4", BOF, "        for subfield in self._subfields:\n            formatted_variables.update(subfield.get_formatted_variables())", "        for subfield in self._subfields:\n            subfield.get_formatted_variables()\n            formatted_variables.update(subfield.formatted_variables)")
M("c14-inline-fragment-variables-lost", "C14", "C14.R4", BOF, "            for subfield in subfields:\n                formatted_variables.update(subfield.get_formatted_variables())\n", "            pass\n")
M("c14-names-not-reserved", "C14", "C14.R4", BOF, "        used_names.add(unique_name)\n", "")
M("c14-used-names-not-shared", "C14", "C14.R4", BOF, "            subfield.to_ast(idx, used_names) for subfield in self._subfields", "            subfield.to_ast(idx) for subfield in self._subfields")
M("c14-none-args-sent", "C14", "C14.R4", CG + "custom_arguments.py", "                                        ops=[ast.IsNot()],", "                                        ops=[ast.Is()],")
M("c14-uncleared-arguments", "C14", "C14.R4", CG + "custom_arguments.py", 'generate_keyword(arg="arguments", value=generate_name("cleared_arguments"))', 'generate_keyword(arg="arguments", value=generate_name("arguments"))')
M("c14-values-from-types", "C14", "C14.R7", CLF, "                                    value=generate_name('v[\"value\"]'),", "                                    value=generate_name('v[\"type\"]'),")
M("c14-execute-wrong-variables", "C14", "C14.R7", CLF, "                    arg=\"variables\", value=generate_name('combined_variables[\"values\"]')", "                    arg=\"variables\", value=generate_name('combined_variables[\"types\"]')")
M("c14-selection-index-const", "C14", "C14.R7", CLF, '                            args=[generate_name("idx")],', '                            args=[generate_constant(0)],')
M("c14-alias-format", "C14", "C14.R7", BOF, 'return f"{self._alias}: {self._field_name}" if self._alias else self._field_name', 'return f"{self._field_name}: {self._alias}" if self._alias else self._field_name')

# ----------------------------------------------------------------------- later additions
M("c01-inline-any-type", "C01", "C01.R8", RTF, "        if selection_value == root_type:\n            return root_type\n\n        return None", "        if selection_value == root_type:\n            return root_type\n\n        return selection_value")
M("c01-inline-interfaces-ignored", "C01", "C01.R8", RTF, "        if isinstance(type_, GraphQLObjectType) and selection_value in {\n            interface.name for interface in type_.interfaces\n        }:\n            return selection_value\n", "")
M("c11-multipart-forces-content-type", "C11", "C11.R3", A, "        return await self.http_client.post(\n            url=self.url, data=data, files=files, **kwargs\n        )", "        return await self.http_client.post(\n            url=self.url, data=data, files=files, headers={\"Content-Type\": \"multipart/form-data\"}, **kwargs\n        )")
M("c10-mutable-default", "C10", "C10.R4", CG + "result_types.py", "    def _get_fragments_names(self, selection_set: SelectionSetNode) -> Set[str]:\n        names: Set[str] = set()", "    def _get_fragments_names(self, selection_set: SelectionSetNode, names: Set[str] = set()) -> Set[str]:\n        names.add(\"\")")
M("c10-lru-cache", "C10", "C10.R5", "utils.py", "def str_to_pascal_case(name: str) -> str:", "@functools.lru_cache(maxsize=None)\ndef str_to_pascal_case(name: str) -> str:")
M("c17-half-specified-base-client", "C17", "C17.R1", "settings.py", "        if not self.base_client_name and not self.base_client_file_path:\n            path, name", "        if not (self.base_client_name and self.base_client_file_path):\n            path, name")
M("c09-enum-consumption-conditional", "C09", "C09.R2", PKF, "        self._used_enums.extend(self.input_types_generator.get_used_enums())\n", "        if not self.include_all_inputs:\n            self._used_enums.extend(self.input_types_generator.get_used_enums())\n")
M("c05-nested-unions-only-optional", "C05", "C05.R6", RFF, "    if isinstance(annotation, ast.Subscript):\n        annotation.slice = annotate_nested_unions(", "    if isinstance(annotation, ast.Subscript) and is_nullable(annotation):\n        annotation.slice = annotate_nested_unions(")
M("c14-used-names-or", "C14", "C14.R4", BOF, "        if used_names is None:\n            used_names = set()\n", "        used_names = used_names or set()\n")
M("c15-operations-module-conditional", "C15", "C15.R4", "contrib/extract_operations.py", "        self._generate_operations_module()\n        return ast.fix_missing_locations(module)", "        if module.body:\n            self._generate_operations_module()\n        return ast.fix_missing_locations(module)")
M("c16-union-default-type-map", "C16", "C16.R4", GSN + "utils.py", "                            value=generate_name(type_map_name),\n                            slice_=generate_constant(name),", "                            value=generate_name(\"type_map\"),\n                            slice_=generate_constant(name),")

# ----------------------------------------------------------------------- round-3 rules
BMF = D + "base_model.py"
EXF = D + "exceptions.py"
M("r3-config-strip-whitespace", "C01", "C01.R10", BMF, "        populate_by_name=True,\n", "        populate_by_name=True,\n        str_strip_whitespace=True,\n")
M("r3-config-extra-forbid", "C08", "C01.R10", BMF, "        protected_namespaces=(),\n", '        protected_namespaces=(),\n        extra="forbid",\n')
M("r3-config-no-arbitrary-types", "C04", "C01.R10", BMF, "        arbitrary_types_allowed=True,\n", "")
M("r3-config-use-enum-values", "C01", "C01.R10", BMF, "        validate_assignment=True,\n", "        validate_assignment=True,\n        use_enum_values=True,\n")
M("r3-config-no-populate-by-name", "C06", "C01.R10", BMF, "        populate_by_name=True,\n", "")
M("r3-config-benign-reorder", "C01", None, BMF, "        populate_by_name=True,\n        validate_assignment=True,\n", "        validate_assignment=True,\n        populate_by_name=True,\n")
M("r3-model-post-init", "C01", "C01.R10", BMF, "        protected_namespaces=(),\n    )\n", "        protected_namespaces=(),\n    )\n\n    def model_post_init(self, context):\n        self.__dict__.pop('typename__', None)\n")
M("r3-upload-eq", "C11", "C11.R8", BMF, "        self.content_type = content_type\n", "        self.content_type = content_type\n\n    def __eq__(self, other):\n        return isinstance(other, Upload) and self.filename == other.filename\n\n    def __hash__(self):\n        return hash(self.filename)\n")
M("r3-upload-dataclass", "C11", "C11.R8", BMF, "class Upload:\n", "from dataclasses import dataclass\n\n\n@dataclass\nclass Upload:\n")
M("r3-upload-basename", "C11", "C11.R8", BMF, "        self.filename = filename\n", "        self.filename = filename.rsplit('/', 1)[-1]\n")
M("r3-upload-benign-private-helper", "C11", None, BMF, "        self.content_type = content_type\n", "        self.content_type = content_type\n\n    def __repr__(self):\n        return f'Upload({self.filename!r})'\n")
M("r3-exc-decode-message", "C13", "C12.R3", EXF, "    def __init__(self, message: Union[str, bytes]) -> None:\n        self.message = message\n", "    def __init__(self, message: Union[str, bytes]) -> None:\n        self.message = message.decode() if isinstance(message, bytes) else message\n")
M("r3-exc-http-reads-body", "C12", "C12.R3", EXF, "        self.status_code = status_code\n        self.response = response\n", "        self.status_code = status_code\n        self.response = response\n        self.body = response.json()\n")
M("r3-exc-multi-index", "C12", "C12.R3", EXF, "        self.errors = errors\n        self.data = data\n", "        self.errors = errors\n        self.data = data\n        self.first = errors[0]\n")
M("r3-exc-benign-super-init", "C12", None, EXF, "        self.errors = errors\n        self.data = data\n", "        super().__init__(str(errors))\n        self.errors = errors\n        self.data = data\n")
M("r3-result-optional-inside-annotated", "C01", "C07.R4", RFF,
  "        annotation = generate_result_scalar_annotation(\n            context.definitions.custom_scalars[type_.name]\n        )\n        if nullable:\n            annotation = generate_nullable_annotation(annotation)\n        return annotation\n",
  "        annotation = generate_result_scalar_annotation(\n            context.definitions.custom_scalars[type_.name]\n        )\n        if nullable and isinstance(annotation, ast.Subscript):\n            annotation.slice.elts[0] = generate_nullable_annotation(annotation.slice.elts[0])\n        elif nullable:\n            annotation = generate_nullable_annotation(annotation)\n        return annotation\n")
M("r3-result-any-never-optional", "C05", "C07.R4", "codegen.py", "    return result if not nullable else generate_nullable_annotation(result)\n", "    if not nullable or name == ANY:\n        return result\n    return generate_nullable_annotation(result)\n")
M("r3-input-scalar-not-optional", "C06", "C07.R5", IFF, "            if nullable:\n                annotation = generate_nullable_annotation(annotation)\n            return (annotation, type_.name)", "            return (annotation, type_.name)")
M("r3-headers-only-for-url", "C17", "C19.R4", "settings.py", "        self.remote_schema_headers = resolve_headers(self.remote_schema_headers)\n\n\n@dataclass\nclass ClientSettings", "        if self.remote_schema_url:\n            self.remote_schema_headers = resolve_headers(self.remote_schema_headers)\n\n\n@dataclass\nclass ClientSettings")
M("r3-imports-skip-for-fragments", "C07", "C04.R4", RTF, "    def _add_enums_scalars_fragments_imports(self):\n", "    def _add_enums_scalars_fragments_imports(self):\n        if not isinstance(self.operation_definition, OperationDefinitionNode):\n            return\n")
M("r3-fragments-after-client-b", "C15", "C15.R8", PKF, "        self._generate_client()\n        self._generate_enums()\n", "        self._generate_client()\n        self._generate_fragments()\n        self._generate_enums()\n")
M("r3-hook-before-fragments", "C15", "C02.R7", RTF,
  "        operation_str = print_ast(\n            self._get_node_without_mixin_directive(self.operation_definition)\n        )\n        if self._fragments_used_as_mixins",
  "        operation_str = print_ast(\n            self._get_node_without_mixin_directive(self.operation_definition)\n        )\n        if self.plugin_manager:\n            operation_str = self.plugin_manager.generate_operation_str(\n                operation_str, operation_definition=self.operation_definition\n            )\n        if self._fragments_used_as_mixins")
M("r3-benign-doc-helper", "C02", None, RTF,
  "    def get_operation_as_str(self) -> str:\n        operation_str = print_ast(\n            self._get_node_without_mixin_directive(self.operation_definition)\n        )\n",
  "    def _definition_text(self, definition):\n        return print_ast(self._get_node_without_mixin_directive(definition))\n\n    def get_operation_as_str(self) -> str:\n        operation_str = self._definition_text(self.operation_definition)\n")
M("r3-benign-doc-helper-c15", "C15", None, RTF,
  "    def get_operation_as_str(self) -> str:\n        operation_str = print_ast(\n            self._get_node_without_mixin_directive(self.operation_definition)\n        )\n",
  "    def _definition_text(self, definition):\n        return print_ast(self._get_node_without_mixin_directive(definition))\n\n    def get_operation_as_str(self) -> str:\n        operation_str = self._definition_text(self.operation_definition)\n")

# ----------------------------------------------------------------------- round-5 rules
M("r5-inline-fragments-one-level", "C01", "C01.R11", RFF, "            inline_fragments.extend(\n                get_inline_fragments_from_selection_set(\n                    fragment_def.selection_set, fragments_definitions\n                )\n            )",
  "            inline_fragments.extend(\n                s for s in fragment_def.selection_set.selections if isinstance(s, InlineFragmentNode)\n            )")
M("r5-inline-fragments-spread-ignored", "C01", "C01.R11", RFF, "        elif isinstance(selection, FragmentSpreadNode):\n            fragment_def = fragments_definitions[selection.name.value]", "        elif isinstance(selection, FragmentSpreadNode) and False:\n            fragment_def = fragments_definitions[selection.name.value]")
M("r5-visited-break", "C09", "C04.R9", ITF, "            if node not in visited:\n                visited.add(node)\n                result.append(node)\n\n                for neighbor in self._dependencies[node]:\n                    dfs(neighbor)",
  "            visited.add(node)\n            result.append(node)\n            for neighbor in self._dependencies[node]:\n                if neighbor in visited:\n                    break\n                visited.add(neighbor)\n                dfs(neighbor)")
M("r5-shorter-results-one-level", "C15", "C15.R9", "contrib/shorter_results.py", "        fields.extend(_get_all_fields(class_dict[base.id], class_dict))", "        fields.extend(f for f in class_dict[base.id].body if isinstance(f, ast.AnnAssign))")
M("r5-template-bypasses-map", "C13", "C03.R5", CLF, 'generate_name(variable_names[self._data_variable])', 'generate_name(self._data_variable)')

# ----------------------------------------------------------------------- round-10 rules (blind spots of the mutation-coverage map)
CUF = "client_generators/custom_fields.py"
COF = "client_generators/custom_operation.py"
M("r10-scalar-imports-not-handed-fields", "C14", "C14.R16", CUF, "        self.argument_generator.add_custom_scalar_imports()\n        self._imports.extend(self.argument_generator.imports)\n", "        self.argument_generator.add_custom_scalar_imports()\n",
  note="the defect repaired by 8b25f48, restored")
M("r10-scalar-imports-not-handed-ops", "C14", "C14.R16", COF, "        self.argument_generator.add_custom_scalar_imports()\n        self._imports.extend(self.argument_generator.imports)\n", "        self.argument_generator.add_custom_scalar_imports()\n")
M("r10-scalar-imports-handed-too-early", "C14", "C14.R16", COF, "        self.argument_generator.add_custom_scalar_imports()\n        self._imports.extend(self.argument_generator.imports)\n",
  "        self._imports.extend(self.argument_generator.imports)\n        self.argument_generator.add_custom_scalar_imports()\n")
M("r10-argument-imports-dropped", "C14", "C14.R16", CUF, "        ) = self.argument_generator.generate_arguments(arguments)\n        self._imports.extend(self.argument_generator.imports)\n", "        ) = self.argument_generator.generate_arguments(arguments)\n")
M("r10-typing-import-dropped", "C14", "C14.R16", COF, "        self._add_import(generate_import_from([OPTIONAL, ANY, DICT], TYPING_MODULE))\n", "")
M("r10-typing-import-loses-union", "C14", "C14.R16", CUF, "                [OPTIONAL, UNION, ANY, DICT],\n", "                [OPTIONAL, ANY, DICT],\n")
M("r10-typing-field-import-other-module", "C14", "C14.R16", CUF, "                [field_class_name.id], from_=\"custom_typing_fields\", level=1\n", "                [field_class_name.id], from_=\"custom_fields_typing\", level=1\n")
M("r10-benign-handed-by-iadd", "C14", None, CUF, "        self.argument_generator.add_custom_scalar_imports()\n        self._imports.extend(self.argument_generator.imports)\n",
  "        self.argument_generator.add_custom_scalar_imports()\n        self._imports.extend(list(self.argument_generator.imports))\n")
PMF = "plugins/manager.py"
M("r10-plugins-config-and", "C15", "C15.R18", PMF, "config_dict=config_dict or {}", "config_dict=config_dict and {}")
M("r10-plugins-types-and", "C15", "C15.R18", PMF, "for cls in plugins_types or []", "for cls in plugins_types and []")
M("r10-plugins-reversed", "C15", "C15.R18", PMF, "for cls in plugins_types or []", "for cls in reversed(plugins_types or [])")
M("r10-plugins-set", "C15", "C15.R18", PMF, "for cls in plugins_types or []", "for cls in set(plugins_types or [])")
M("r10-plugin-base-drops-config", "C15", "C15.R18", "plugins/base.py", "        self.config_dict = config_dict\n", "        self.config_dict = {}\n")
M("r10-plugin-super-gets-empty-config", "C15", "C15.R18", "contrib/shorter_results.py", "        super().__init__(schema, config_dict)\n", "        super().__init__(schema, {})\n")
M("r10-benign-plugins-loop", "C15", None, PMF, "        self.plugins: List[Plugin] = [\n            cls(schema=schema, config_dict=config_dict or {})\n            for cls in plugins_types or []\n        ]\n",
  "        self.plugins: List[Plugin] = []\n        for cls in plugins_types or []:\n            self.plugins.append(cls(schema=schema, config_dict=config_dict or {}))\n")
M("r10-benign-plugins-positional", "C15", None, PMF, "cls(schema=schema, config_dict=config_dict or {})", "cls(schema, config_dict or {})")
RFF2 = "client_generators/result_fields.py"
M("r10-fragments-definitions-and", "C01", "C04.R19", RFF2, "    root_type_def = cast(GraphQLAbstractType, root_type_def)\n    fragments_definitions = fragments_definitions or {}\n", "    root_type_def = cast(GraphQLAbstractType, root_type_def)\n    fragments_definitions = fragments_definitions and {}\n")
M("r10-custom-scalars-arms-swapped", "C14", "C04.R19", CUF, "self.custom_scalars = custom_scalars if custom_scalars else {}", "self.custom_scalars = {} if custom_scalars else custom_scalars")
M("r10-benign-default-is-none", "C14", None, CUF, "self.custom_scalars = custom_scalars if custom_scalars else {}", "self.custom_scalars = {} if custom_scalars is None else custom_scalars")
M("r10-benign-default-or", "C14", None, CUF, "self.custom_scalars = custom_scalars if custom_scalars else {}", "self.custom_scalars = custom_scalars or {}")
# ----------------------------------------------------------------------- round-11 rules (contracts between functions)
M("r11-flavour-flag-negated", "C12", "C12.R5", PKF, "            async_=self.async_client,\n        )\n\n    def _include_exceptions", "            async_=not self.async_client,\n        )\n\n    def _include_exceptions")
M("r11-flavour-flag-constant", "C12", "C12.R5", PKF, "        self.async_client = async_client\n", "        self.async_client = True\n")
M("r11-benign-format-lower-first", "C16", None, "settings.py", "return Path(self.target_file_path).suffix[1:].lower()", "return Path(self.target_file_path).suffix.lower()[1:]")
M("r11-format-stem", "C16", "C16.R9", "settings.py", "return Path(self.target_file_path).suffix[1:].lower()", "return Path(self.target_file_path).name.split('.')[1].lower()")
M("r11-benign-import-list-order", "C06", None, "client_generators/input_types.py", "generate_import_from([FIELD_CLASS, PLAIN_SERIALIZER], PYDANTIC_MODULE)", "generate_import_from([PLAIN_SERIALIZER, FIELD_CLASS], PYDANTIC_MODULE)")
M("r11-literal-not-imported", "C05", "C04.R20", "client_generators/result_types.py", "[OPTIONAL, UNION, ANY, LIST, LITERAL, ANNOTATED], TYPING_MODULE", "[OPTIONAL, UNION, ANY, LIST, ANNOTATED], TYPING_MODULE")
M("r11-exported-unfiltered-enums", "C09", "C09.R6", "client_generators/enums.py", "self._generated_public_names = [class_def.name for class_def in class_defs]", "self._generated_public_names = [class_def.name for class_def in self._class_defs]")
M("r11-benign-exported-names-loop", "C09", None, "client_generators/enums.py", "        self._generated_public_names = [class_def.name for class_def in class_defs]\n", "        names = [class_def.name for class_def in class_defs]\n        self._generated_public_names = names\n")
M("r12-unpacked-not-accumulated", "C08", "C04.R21", PKF, "        self._unpacked_fragments = self._unpacked_fragments.union(\n            query_types_generator.get_unpacked_fragments()\n        )\n", "        self._unpacked_fragments = query_types_generator.get_unpacked_fragments()\n")
M("r12-public-name-not-recorded", "C04", "C04.R21", RTF, "        self._public_names.append(class_name)\n\n        resolved_selection_set", "        resolved_selection_set")
M("r12-benign-unpacked-ior", "C08", None, PKF, "        self._unpacked_fragments = self._unpacked_fragments.union(\n            query_types_generator.get_unpacked_fragments()\n        )\n", "        self._unpacked_fragments |= query_types_generator.get_unpacked_fragments()\n")

from . import mutants_seeded  # noqa: F401,E402  (mutants generated from the confirmed seeded changes)
