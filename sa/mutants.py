"""Mutant catalogue for the self-test: each entry is a realistic, still-compiling edit
that breaks a property, plus benign variants (rule=None) that must stay silent."""
from .selftest import M

D = "client_generators/dependencies/"
A, S, AO, SO = D + "async_base_client.py", D + "base_client.py", D + "async_base_client_open_telemetry.py", D + "base_client_open_telemetry.py"

# ----------------------------------------------------------------------- C12
for i, f in enumerate((A, S, AO, SO)):
    M(f"c12-errors-need-no-data-{i}", "C12", "C12.R1", f, "        if errors:\n", "        if errors and not data:\n")
    M(f"c12-return-whole-json-{i}", "C12", "C12.R1", f, "        return cast(Dict[str, Any], data)", "        return cast(Dict[str, Any], response_json)")
M("c12-status-after-decode", "C12", "C12.R1", A,
  "        if not response.is_success:\n            raise GraphQLClientHttpError(\n                status_code=response.status_code, response=response\n            )\n\n        try:\n            response_json = response.json()\n        except ValueError as exc:\n            raise GraphQLClientInvalidResponseError(response=response) from exc\n",
  "        try:\n            response_json = response.json()\n        except ValueError as exc:\n            raise GraphQLClientInvalidResponseError(response=response) from exc\n\n        if not response.is_success:\n            raise GraphQLClientHttpError(\n                status_code=response.status_code, response=response\n            )\n")
M("c12-shape-and", "C12", "C12.R1", S, '"data" not in response_json and "errors" not in response_json', '"data" not in response_json')
M("c12-shape-or", "C12", "C12.R1", AO, '"data" not in response_json and "errors" not in response_json', '"data" not in response_json or "errors" not in response_json')
M("c12-decode-unguarded", "C12", "C12.R1", SO, "        except ValueError as exc:\n            raise GraphQLClientInvalidResponseError(response=response) from exc", "        except KeyError as exc:\n            raise GraphQLClientInvalidResponseError(response=response) from exc")
M("c12-decode-swallowed", "C12", "C12.R1", A, "        except ValueError as exc:\n            raise GraphQLClientInvalidResponseError(response=response) from exc", "        except ValueError:\n            return {}")
M("c12-http-error-on-5xx-only", "C12", "C12.R1", A, "        if not response.is_success:\n            raise GraphQLClientHttpError(", "        if response.is_server_error:\n            raise GraphQLClientHttpError(")
M("c12-multi-error-drops-data", "C12", "C12.R2", A, "errors_dicts=errors, data=data\n            )\n\n        return", "errors_dicts=errors, data=None\n            )\n\n        return")
M("c12-http-error-status-const", "C12", "C12.R2", S, "status_code=response.status_code, response=response", "status_code=500, response=response")
M("c12-from-dict-path", "C12", "C12.R2", D + "exceptions.py", 'path=error.get("path"),', 'path=error.get("locations"),')
M("c12-from-dict-original", "C12", "C12.R2", D + "exceptions.py", "original=error,", "original=None,")
M("c12-errors-first-only", "C12", "C12.R2", D + "exceptions.py", "for e in errors_dicts]", "for e in errors_dicts[:1]]")
M("c12-errors-filtered", "C12", "C12.R2", D + "exceptions.py", "for e in errors_dicts]", "for e in errors_dicts if e.get('path')]")
M("c12-benign-rename-local", "C12", None, A, "response_json", "payload_json", count=0)
M("c12-benign-is-error", "C12", None, A, "if not response.is_success:", "if response.is_error:")
M("c12-benign-demorgan", "C12", None, S, '(not isinstance(response_json, dict)) or (\n            "data" not in response_json and "errors" not in response_json\n        )',
  'not (isinstance(response_json, dict) and ("data" in response_json or "errors" in response_json))')

# ----------------------------------------------------------------------- C11
for i, f in enumerate((A, S, AO, SO)):
    M(f"c11-opname-key-{i}", "C11", "C11.R3", f, '"operationName": operation_name,\n                    "variables": variables,\n                },\n                default=to_jsonable_python,\n            ),\n            **merged_kwargs,',
      '"operation_name": operation_name,\n                    "variables": variables,\n                },\n                default=to_jsonable_python,\n            ),\n            **merged_kwargs,')
    M(f"c11-upload-returned-{i}", "C11", "C11.R5", f, "                    files_map[str(file_index)] = [path]\n                return None", "                    files_map[str(file_index)] = [path]\n                return obj")
M("c11-headers-caller-loses", "C11", "C11.R4", A,
  '        headers: Dict[str, str] = {"Content-Type": "application/json"}\n        headers.update(kwargs.get("headers", {}))\n\n        merged_kwargs: Dict[str, Any] = kwargs.copy()',
  '        headers: Dict[str, str] = dict(kwargs.get("headers", {}))\n        headers["Content-Type"] = "application/json"\n\n        merged_kwargs: Dict[str, Any] = kwargs.copy()')
M("c11-kwargs-mutated", "C11", "C11.R4", S, "merged_kwargs: Dict[str, Any] = kwargs.copy()", "merged_kwargs: Dict[str, Any] = kwargs")
M("c11-headers-not-merged", "C11", "C11.R4", AO, '        headers.update(kwargs.get("headers", {}))\n\n        merged_kwargs: Dict[str, Any] = kwargs.copy()', '\n        merged_kwargs: Dict[str, Any] = kwargs.copy()')
M("c11-one-client-only-timeout", "C11", "C11.R1", S, "        return self.http_client.post(url=self.url, data=data, files=files, **kwargs)", "        kwargs.pop(\"timeout\", None)\n        return self.http_client.post(url=self.url, data=data, files=files, **kwargs)")
M("c11-multipart-variables-dropped", "C11", "C11.R3", SO, '                    "variables": variables,\n                },\n                default=to_jsonable_python,\n            ),\n            "map"', '                    "variables": {},\n                },\n                default=to_jsonable_python,\n            ),\n            "map"')
M("c11-map-wrong", "C11", "C11.R3", A, '"map": json.dumps(files_map, default=to_jsonable_python)', '"map": json.dumps(files, default=to_jsonable_python)')
M("c11-upload-repeat-no-append", "C11", "C11.R5", A, "                    file_index = files_list.index(obj)\n                    files_map[str(file_index)].append(path)", "                    file_index = files_list.index(obj)")
M("c11-upload-index-after-append", "C11", "C11.R5", S, "                    file_index = len(files_list)\n                    files_list.append(obj)", "                    files_list.append(obj)\n                    file_index = len(files_list)")
M("c11-upload-dup-sent-twice", "C11", "C11.R5", AO, "                if obj in files_list:", "                if False and obj in files_list:")
M("c11-list-path-no-index", "C11", "C11.R5", SO, 'value = separate_files(f"{path}.{index}", value)', 'value = separate_files(f"{path}", value)')
M("c11-dict-path-sep", "C11", "C11.R5", A, 'value = separate_files(f"{path}.{key}", value)', 'value = separate_files(f"{path}/{key}", value)')
M("c11-root-path", "C11", "C11.R5", S, 'separate_files("variables", variables)', 'separate_files("variable", variables)')
M("c11-files-keys-offset", "C11", "C11.R5", AO, "            str(i): (file_.filename,", "            str(i + 1): (file_.filename,")
M("c11-multipart-needs-only-files", "C11", "C11.R5", A, "        if files and files_map:\n            return await self._execute_multipart(", "        if files or files_map:\n            return await self._execute_multipart(")
M("c11-unset-filter-dropped", "C11", "C11.R7", A, "            for key, value in dict_.items()\n            if value is not UNSET\n", "            for key, value in dict_.items()\n")
M("c11-none-filtered", "C11", "C11.R7", S, "            if value is not UNSET\n", "            if value is not UNSET and value is not None\n")
M("c11-by-alias-dropped", "C11", "C11.R7", AO, "value.model_dump(by_alias=True, exclude_unset=True)", "value.model_dump(exclude_unset=True)")
M("c11-exclude-none", "C11", "C11.R7", SO, "value.model_dump(by_alias=True, exclude_unset=True)", "value.model_dump(by_alias=True, exclude_unset=True, exclude_none=True)")
M("c11-state-on-self", "C11", "C11.R6", A, "        processed_variables, files, files_map = self._process_variables(variables)\n\n        if files and files_map:\n            return await self._execute_multipart(",
  "        processed_variables, files, files_map = self._process_variables(variables)\n        self._last_variables = processed_variables\n\n        if files and files_map:\n            return await self._execute_multipart(")
M("c11-telemetry-twin-diverges", "C11", "C11.R2", AO, "            return await self._execute_json_with_telemetry(\n                root_span=root_span,\n                query=query,\n                operation_name=operation_name,\n                variables=processed_variables,",
  "            return await self._execute_json_with_telemetry(\n                root_span=root_span,\n                query=query,\n                operation_name=operation_name,\n                variables=variables,")
M("c11-telemetry-forward-drops-kwargs", "C11", "C11.R2", SO, "            return self._execute_json(\n                query=query,\n                operation_name=operation_name,\n                variables=variables,\n                **kwargs,\n            )", "            return self._execute_json(\n                query=query,\n                operation_name=operation_name,\n                variables=variables,\n            )")
M("c11-dispatcher-drops-opname", "C11", "C11.R1", AO, "        return await self._execute(\n            query=query, operation_name=operation_name, variables=variables, **kwargs\n        )", "        return await self._execute(\n            query=query, operation_name=None, variables=variables, **kwargs\n        )")
M("c11-benign-rename-local", "C11", None, A, "nulled_list", "cleaned", count=0)
M("c11-benign-docstring", "C11", None, S, "    def _convert_value(self, value: Any) -> Any:\n", "    def _convert_value(self, value: Any) -> Any:\n        \"\"\"Convert one value.\"\"\"\n")

# ----------------------------------------------------------------------- C13
M("c13-subscribe-before-ack", "C13", "C13.R1", A,
  "            await self._send_connection_init(websocket)\n            # wait for connection_ack from server\n            await self._handle_ws_message(\n                await websocket.recv(),\n                websocket,\n                expected_type=GraphQLTransportWSMessageType.CONNECTION_ACK,\n            )\n            await self._send_subscribe(\n                websocket,\n                operation_id=operation_id,\n                query=query,\n                operation_name=operation_name,\n                variables=variables,\n            )\n",
  "            await self._send_connection_init(websocket)\n            await self._send_subscribe(\n                websocket,\n                operation_id=operation_id,\n                query=query,\n                operation_name=operation_name,\n                variables=variables,\n            )\n            # wait for connection_ack from server\n            await self._handle_ws_message(\n                await websocket.recv(),\n                websocket,\n                expected_type=GraphQLTransportWSMessageType.CONNECTION_ACK,\n            )\n")
M("c13-ack-not-required", "C13", "C13.R1", AO, "                websocket,\n                expected_type=GraphQLTransportWSMessageType.CONNECTION_ACK,\n            )\n            await self._send_subscribe(\n                websocket,", "                websocket,\n            )\n            await self._send_subscribe(\n                websocket,")
M("c13-subscribe-in-loop", "C13", "C13.R1", A, "            async for message in websocket:\n                data = await self._handle_ws_message(message, websocket)\n", "            async for message in websocket:\n                await self._send_subscribe(websocket, operation_id=operation_id, query=query, operation_name=operation_name, variables=variables)\n                data = await self._handle_ws_message(message, websocket)\n")
M("c13-subscribe-opname-none", "C13", "C13.R1", A, "                query=query,\n                operation_name=operation_name,\n                variables=variables,\n            )\n\n            async for message in websocket:", "                query=query,\n                operation_name=None,\n                variables=variables,\n            )\n\n            async for message in websocket:")
M("c13-subprotocol", "C13", "C13.R2", A, 'GRAPHQL_TRANSPORT_WS = "graphql-transport-ws"', 'GRAPHQL_TRANSPORT_WS = "graphql-ws"')
M("c13-headers-shared", "C13", "C13.R2", A, "        headers = self.ws_headers.copy()\n        headers.update(kwargs.get(\"extra_headers\", {}))\n\n        merged_kwargs: Dict[str, Any] = {\"origin\": self.ws_origin}\n        merged_kwargs.update(kwargs)\n        merged_kwargs[\"extra_headers\"] = headers\n\n        operation_id = str(uuid4())\n        async with ws_connect(\n            self.ws_url,\n            subprotocols=[Subprotocol(GRAPHQL_TRANSPORT_WS)],\n            **merged_kwargs,\n        ) as websocket:\n            await self._send_connection_init(websocket)",
  "        headers = dict(kwargs.get(\"extra_headers\", {}))\n\n        merged_kwargs: Dict[str, Any] = {\"origin\": self.ws_origin}\n        merged_kwargs.update(kwargs)\n        merged_kwargs[\"extra_headers\"] = headers\n\n        operation_id = str(uuid4())\n        async with ws_connect(\n            self.ws_url,\n            subprotocols=[Subprotocol(GRAPHQL_TRANSPORT_WS)],\n            **merged_kwargs,\n        ) as websocket:\n            await self._send_connection_init(websocket)")
for i, f in enumerate((A, AO)):
    M(f"c13-ping-no-pong-{i}", "C13", "C13.R3", f, "        elif type_ == GraphQLTransportWSMessageType.PING:\n            await websocket.send(\n                json.dumps({\"type\": GraphQLTransportWSMessageType.PONG.value})\n            )\n", "        elif type_ == GraphQLTransportWSMessageType.PING:\n            pass\n")
    M(f"c13-pong-answers-ping-{i}", "C13", "C13.R3", f, 'json.dumps({"type": GraphQLTransportWSMessageType.PONG.value})\n            )\n        elif', 'json.dumps({"type": GraphQLTransportWSMessageType.PING.value})\n            )\n        elif')
    M(f"c13-complete-ignored-{i}", "C13", "C13.R3", f, "        if type_ == GraphQLTransportWSMessageType.COMPLETE:\n            await websocket.close()\n        elif type_ == GraphQLTransportWSMessageType.PING:", "        if type_ == GraphQLTransportWSMessageType.PING:")
    M(f"c13-unknown-type-ignored-{i}", "C13", "C13.R3", f, "        if not type_ or type_ not in {t.value for t in GraphQLTransportWSMessageType}:\n            raise GraphQLClientInvalidMessageFormat(message=message)\n", "        if not type_:\n            raise GraphQLClientInvalidMessageFormat(message=message)\n")
    M(f"c13-next-without-data-none-{i}", "C13", "C13.R3", f, '            if "data" not in payload:\n                raise GraphQLClientInvalidMessageFormat(message=message)\n            return cast(Dict[str, Any], payload["data"])', '            if "data" not in payload:\n                return None\n            return cast(Dict[str, Any], payload["data"])')
M("c13-error-frame-swallowed", "C13", "C13.R3", A, "        elif type_ == GraphQLTransportWSMessageType.ERROR:\n            raise GraphQLClientGraphQLMultiError.from_errors_dicts(\n                errors_dicts=payload, data=message_dict\n            )\n", "        elif type_ == GraphQLTransportWSMessageType.ERROR:\n            await websocket.close()\n")
M("c13-otel-handler-ping", "C13", "C13.R3", AO, "            elif type_ == GraphQLTransportWSMessageType.PING:\n                await websocket.send(", "            elif type_ == GraphQLTransportWSMessageType.PONG:\n                await websocket.send(")
M("c13-expected-type-not-checked", "C13", "C13.R3", A, "        if expected_type and expected_type != type_:", "        if expected_type and expected_type == type_:")
M("c13-loop-yields-message", "C13", "C13.R4", A, "                if data:\n                    yield data", "                if data:\n                    yield message")
M("c13-loop-stops-after-first", "C13", "C13.R4", AO, "                data = await self._handle_ws_message(message, websocket)\n                if data:\n                    yield data", "                data = await self._handle_ws_message(message, websocket)\n                if data:\n                    yield data\n                    return")
M("c13-init-payload-dropped", "C13", "C13.R5", A, '        if self.ws_connection_init_payload:\n            payload["payload"] = self.ws_connection_init_payload\n        await websocket.send', '        await websocket.send')
M("c13-subscribe-raw-variables", "C13", "C13.R5", A, 'payload["payload"]["variables"] = self._convert_dict_to_json_serializable(\n                variables\n            )', 'payload["payload"]["variables"] = variables')
M("c13-subscribe-opname-key", "C13", "C13.R5", AO, '"payload": {"query": query, "operationName": operation_name},', '"payload": {"query": query, "operation_name": operation_name},')
M("c13-otel-twin", "C13", "C11.R2", AO, "                    if data:\n                        yield data", "                    if data is not None:\n                        yield data")
M("c13-benign-rename", "C13", None, A, "message_dict", "frame", count=0)

# ----------------------------------------------------------------------- C10
CG = "client_generators/"
M("c10-deps-unsorted", "C10", "C10.R1", CG + "fragments.py", "for dep in sorted(dependencies_dict[name]):", "for dep in dependencies_dict[name]:")
M("c10-roots-unsorted", "C10", "C10.R1", CG + "fragments.py", "for name in sorted(fragments_names):", "for name in fragments_names:")
M("c10-files-unsorted", "C10", "C10.R1", "schema.py", "for f in sorted(walk_graphql_files(path))", "for f in walk_graphql_files(path)")
M("c10-related-fragments-unsorted", "C10", "C10.R1", CG + "result_types.py", "for used_fragment in sorted(self._get_all_related_fragments()):", "for used_fragment in self._get_all_related_fragments():")
M("c10-bases-unsorted", "C10", "C10.R1", CG + "result_types.py", "[str_to_pascal_case(f) for f in sorted(fragments)]", "[str_to_pascal_case(f) for f in fragments]")
M("c10-typename-unsorted", "C10", "C10.R1", CG + "result_fields.py", "for v in sorted(typename_values)]", "for v in typename_values]")
M("c10-rebuild-unsorted", "C10", "C10.R1", CG + "fragments.py", "        sorted_fragments_names = sorted(\n            top_level_fragments_names, key=class_names.index\n        )", "        sorted_fragments_names = top_level_fragments_names")
M("c10-interface-fragment-types-unsorted", "C10", "C10.R1", CG + "result_fields.py", "        fragments_types_names = sorted(\n            {", "        fragments_types_names = list(\n            {")
M("c10-type-collector-unsorted", "C10", "C10.R1", CG + "custom_generator_utils.py", "return sorted(self.collected_types)", "return list(self.collected_types)")
M("c10-custom-fields-typing-unsorted", "C10", "C10.R1", CG + "custom_fields.py", "sorted(additional_fields_typing)", "list(additional_fields_typing)")
M("c10-stable-comment-time", "C10", "C10.R2", CG + "comments.py", "    comment = STABLE_COMMENT\n", "    comment = STABLE_COMMENT + datetime.now().strftime(\"%Y\")\n")
M("c10-timestamp-default", "C10", "C10.R2", CG + "comments.py", "    }.get(strategy, empty_comment_function)", "    }.get(strategy, get_timestamp_comment)")
M("c10-skip-existing-init", "C10", "C10.R3", CG + "package.py", "        init_module = self.init_generator.generate()\n", "        if init_file_path.exists():\n            return\n        init_module = self.init_generator.generate()\n")
M("c10-append-client", "C10", "C10.R3", CG + "package.py", "        client_file_path.write_text(code)", "        with client_file_path.open(\"a\") as fh:\n            fh.write(code)")
M("c10-hash-in-name", "C10", "C10.R2", CG + "package.py", '        file_name = f"{module_name}.py"', '        file_name = f"{module_name}.py" if hash(module_name) else f"{module_name}.py"')
M("c10-benign-sorted-twice", "C10", None, CG + "fragments.py", "for name in sorted(fragments_names):", "for name in sorted(sorted(fragments_names)):")

# ----------------------------------------------------------------------- C01
RTF = CG + "result_types.py"
RFF = CG + "result_fields.py"
M("c01-mixin-not-recorded", "C01", "C01.R1", RTF, "                    fragments.add(selection.name.value)", "                    pass")
M("c01-unpacked-not-recorded", "C01", "C01.R1", RTF, "                    self._unpacked_fragments.add(selection.name.value)\n", "")
M("c01-inline-fields-dropped", "C01", "C01.R1", RTF, "                        selection.selection_set, root_type_value\n                    )\n                    fields.extend(sub_fields)\n", "                        selection.selection_set, root_type_value\n                    )\n")
M("c01-spread-fragments-dropped", "C01", "C01.R1", RTF, "                    fields.extend(sub_fields)\n                    fragments = fragments.union(sub_fragments)\n            elif isinstance(selection, InlineFragmentNode):", "                    fields.extend(sub_fields)\n            elif isinstance(selection, InlineFragmentNode):")
M("c01-mixins-not-accumulated", "C01", "C01.R1", RTF, "        self._fragments_used_as_mixins = self._fragments_used_as_mixins.union(\n            set(fragments)\n        )\n        return fields, fragments", "        return fields, fragments")
M("c01-no-typename", "C01", "C01.R2", RTF, "add_typename=field_context.abstract_type,", "add_typename=False,")
M("c01-union-not-abstract", "C01", "C01.R2", RFF, "    context.abstract_type = True\n    sub_annotations", "    sub_annotations")
M("c01-interface-abstract-late", "C01", "C01.R2", RFF, "    context.abstract_type = True\n    if inline_fragments or fragments_on_subtypes:", "    if inline_fragments or fragments_on_subtypes:\n        context.abstract_type = True")
M("c01-typename-not-sent", "C01", "C01.R2", RTF, "            (\n                resolved_selection_set,\n                selection_set.selections,\n            ) = self._add_typename_field_to_selections(", "            (\n                resolved_selection_set,\n                _,\n            ) = self._add_typename_field_to_selections(")
M("c01-typename-appended-to-fields-only", "C01", "C01.R2", RTF, "            return [typename_field, *resolved_fields], (\n                typename_field,\n                *selection_set.selections,\n            )", "            return [typename_field, *resolved_fields], selection_set.selections")
M("c01-alias-from-python-name", "C01", "C01.R3", RTF, "keywords[ALIAS_KEYWORD] = generate_constant(field_schema_name)", "keywords[ALIAS_KEYWORD] = generate_constant(field_implementation.target.id)")
M("c01-response-key-ignores-alias", "C01", "C01.R3", RTF, "        if field.alias:\n            return field.alias.value\n        return field.name.value", "        return field.name.value")
M("c01-schema-lookup-by-alias", "C01", "C01.R3", RTF, "self._get_field_from_schema(type_name, field.name.value)", "self._get_field_from_schema(type_name, field_name)")
M("c01-class-name-drift", "C01", "C01.R4", RFF, "            RelatedClassData(class_name=class_name + type_.name, type_name=type_.name)\n        )\n        fragments_types_names", "            RelatedClassData(class_name=class_name + type_.name + \"Base\", type_name=type_.name)\n        )\n        fragments_types_names")
M("c01-object-not-registered", "C01", "C01.R4", RFF, "    name = class_name + type_.name if add_type_name else class_name\n    context.related_classes.append(\n        RelatedClassData(class_name=name, type_name=type_.name)\n    )\n    return generate_annotation_name('\"' + name + '\"', nullable)\n\n\ndef parse_enum_type", "    name = class_name + type_.name if add_type_name else class_name\n    return generate_annotation_name('\"' + name + '\"', nullable)\n\n\ndef parse_enum_type")
M("c01-related-class-filtered", "C01", "C01.R5", RTF, "            for related_class_data in field_context.related_classes:\n                generated_classes.extend(", "            for related_class_data in field_context.related_classes:\n                if related_class_data.type_name.startswith(\"_\"):\n                    continue\n                generated_classes.extend(")
M("c01-field-skipped", "C01", "C01.R5", RTF, "            class_def.body.append(field_implementation)\n\n            extra_classes.extend(", "            if not field.directives:\n                class_def.body.append(field_implementation)\n\n            extra_classes.extend(")
M("c01-typename-values-lost", "C01", "C01.R5", RTF, "typename_values=typename_values[related_class_data.type_name],", "typename_values=None,")
M("c01-discriminator-wire-name", "C01", "C01.R7", RTF, "keywords[DISCRIMINATOR_KEYWORD] = generate_constant(TYPENAME_ALIAS)", "keywords[DISCRIMINATOR_KEYWORD] = generate_constant(TYPENAME_FIELD_NAME)")
M("c01-possible-types-dropped", "C01", "C01.R7", RTF, "        result[abstract_type.name].extend(types_without_class)\n", "")
M("c01-typename-alias-private", "C01", "C01.R7", CG + "constants.py", 'TYPENAME_ALIAS = "typename__"', 'TYPENAME_ALIAS = "_typename"')
M("c01-benign-rename", "C01", None, RTF, "sub_fields", "inner_fields", count=0)

# ----------------------------------------------------------------------- C08
FRF = CG + "fragments.py"
M("c08-union-fragment-as-mixin", "C08", "C08.R1", RTF, "            GraphQLUnionType,\n        ):\n            return True", "            GraphQLUnionType,\n        ):\n            return False")
M("c08-other-type-as-mixin", "C08", "C08.R1", RTF, "            and fragment_def.type_condition.name.value != root_type_def.name\n        ):\n            return True", "            and fragment_def.type_condition.name.value != root_type_def.name\n        ):\n            return False")
M("c08-inline-fragment-as-mixin", "C08", "C08.R1", RTF, "            if isinstance(fragment_selection, InlineFragmentNode):\n                return True", "            if isinstance(fragment_selection, InlineFragmentNode):\n                return False")
M("c08-always-unpack", "C08", "C08.R1", RTF, "                return True\n        return False\n\n    def _add_typename_field_to_selections", "                return True\n        return True\n\n    def _add_typename_field_to_selections")
M("c08-bases-ignore-fragments", "C08", "C08.R1", RTF, "        if fragments:\n            class_bases = [str_to_pascal_case(f) for f in sorted(fragments)]", "        if False:\n            class_bases = [str_to_pascal_case(f) for f in sorted(fragments)]")
M("c08-mixin-bases-dropped", "C08", "C08.R1", RTF, "        if extra_bases:\n            class_bases.extend(extra_bases)\n", "")
M("c08-preorder", "C08", "C08.R3", FRF, "            visited.add(name)\n            for dep in sorted(dependencies_dict[name]):\n                visit(dep)\n            sorted_names.append(name)", "            visited.add(name)\n            sorted_names.append(name)\n            for dep in sorted(dependencies_dict[name]):\n                visit(dep)")
M("c08-deps-not-visited", "C08", "C08.R3", FRF, "            for dep in sorted(dependencies_dict[name]):\n                visit(dep)\n", "")
M("c08-deps-from-unpacked", "C08", "C08.R3", FRF, "dependencies_dict[name] = generator.get_fragments_used_as_mixins()", "dependencies_dict[name] = generator.get_unpacked_fragments()")
M("c08-class-order-by-definition", "C08", "C08.R3", FRF, "            sorted_class_defs.extend(class_defs_dict[name])\n\n        return sorted_class_defs", "            pass\n        for name in class_defs_dict:\n            sorted_class_defs.extend(class_defs_dict[name])\n\n        return sorted_class_defs")
M("c08-mixin-import-missing", "C08", "C08.R4", RTF, "            self._imports.append(\n                generate_import_from(\n                    names=[arguments[MIXIN_IMPORT_NAME]],\n                    from_=arguments[MIXIN_FROM_NAME],\n                )\n            )\n", "")
M("c08-mixin-on-definition-ignored", "C08", "C08.R4", RTF, "                extra_bases=self._get_extra_bases_from_mixin_directives(\n                    self.operation_definition\n                ),", "                extra_bases=None,")
M("c08-field-mixin-wrong-node", "C08", "C08.R4", RTF, "extra_bases=self._get_extra_bases_from_mixin_directives(field),", "extra_bases=self._get_extra_bases_from_mixin_directives(self.operation_definition),")
M("c08-benign-rename", "C08", None, FRF, "sorted_names", "ordered", count=0)

# ----------------------------------------------------------------------- C02 (result side)
M("c02-mixin-kept-on-fragments", "C02", "C02.R2", RTF, "            def enter_fragment_definition(", "            def enter_fragment_definition_(")
M("c02-mixin-filter-inverted", "C02", "C02.R2", RTF, "d for d in node.directives or [] if d.name.value != MIXIN_NAME\n                )\n                return node\n\n            @staticmethod", "d for d in node.directives or [] if d.name.value == MIXIN_NAME\n                )\n                return node\n\n            @staticmethod")
M("c02-no-deepcopy", "C02", "C02.R2", RTF, "copied_node = deepcopy(node)", "copied_node = node")
M("c02-fragment-printed-raw", "C02", "C02.R2", RTF, "                operation_str += \"\\n\\n\" + print_ast(\n                    self._get_node_without_mixin_directive(\n                        self.fragments_definitions[used_fragment]\n                    )\n                )", "                operation_str += \"\\n\\n\" + print_ast(\n                    self.fragments_definitions[used_fragment]\n                )")
M("c02-directives-stripped", "C02", "C02.R3", RTF, "            field_name = self._get_field_name(field)\n", "            field_name = self._get_field_name(field)\n            field.directives = ()\n")
M("c02-alias-cleared", "C02", "C02.R3", CG + "result_fields.py", "    default_value: Optional[ast.Constant] = None\n    context = FieldContext(", "    default_value: Optional[ast.Constant] = None\n    field.alias = None\n    context = FieldContext(")
M("c02-closure-not-recursive", "C02", "C02.R4", RTF, "                names.add(name)\n                names = names.union(\n                    self._get_fragments_names(\n                        self.fragments_definitions[name].selection_set\n                    )\n                )", "                names.add(name)")
M("c02-closure-skips-inline", "C02", "C02.R4", RTF, "isinstance(node, (FieldNode, InlineFragmentNode)) and node.selection_set", "isinstance(node, FieldNode) and node.selection_set")
M("c02-unpacked-definitions-missing", "C02", "C02.R4", RTF, "        return fragments_names.union(self._unpacked_fragments)", "        return fragments_names")
M("c02-fragments-only-with-mixins", "C02", "C02.R4", RTF, "        if self._fragments_used_as_mixins or self._unpacked_fragments:", "        if self._fragments_used_as_mixins:")

# ----------------------------------------------------------------------- C02 (package side)
PKF = CG + "package.py"
CLF = CG + "client.py"
M("c02-code-replace", "C02", "C02.R1", "utils.py", "    if remove_unused_imports:\n        code = fix_code(code, remove_all_unused_imports=True)", "    code = code.replace(\"\\\\t\", \"    \")\n    if remove_unused_imports:\n        code = fix_code(code, remove_all_unused_imports=True)")
M("c02-client-code-regex", "C02", "C02.R1", PKF, "        if self.plugin_manager:\n            code = self.plugin_manager.generate_client_code(code)\n        client_file_path.write_text(code)", "        code = re.sub(r\"[ ]+$\", \"\", code)\n        client_file_path.write_text(code)")
M("c02-blank-line-filter-strips", "C02", "C02.R1", "utils.py", "            code_lines.append(line)\n    return", "            code_lines.append(line.rstrip())\n    return")
M("c02-opname-from-method-name", "C02", "C02.R5", CLF, "                generate_keyword(\n                    value=generate_constant(operation_name), arg=\"operation_name\"\n                ),\n                generate_keyword(\n                    value=generate_name(variable_names[self._variables_dict_variable]),", "                generate_keyword(\n                    value=generate_constant(operation_name.lower()), arg=\"operation_name\"\n                ),\n                generate_keyword(\n                    value=generate_name(variable_names[self._variables_dict_variable]),")
M("c02-opname-empty", "C02", "C02.R5", CLF, 'operation_name = definition.name.value if definition.name else ""', 'operation_name = ""')
M("c02-lines-stripped", "C02", "C02.R5", CLF, '[generate_constant(l + "\\n") for l in operation_str.splitlines()]', '[generate_constant(l.strip() + "\\n") for l in operation_str.splitlines()]')
M("c02-lines-nonempty", "C02", "C02.R5", CLF, '[generate_constant(l + "\\n") for l in operation_str.splitlines()]', '[generate_constant(l + "\\n") for l in operation_str.splitlines() if l]')
M("c02-kwargs-not-forwarded", "C02", "C02.R5", CLF, "                generate_keyword(value=generate_name(KWARGS_NAMES)),\n            ],\n        )\n\n    def _generate_data_retrieval", "            ],\n        )\n\n    def _generate_data_retrieval")
M("c02-validation-rules-fewer", "C02", "C02.R6", "schema.py", "rules=[r for r in specified_rules if r is not NoUnusedFragmentsRule],", "rules=[r for r in specified_rules[:10] if r is not NoUnusedFragmentsRule],")
M("c02-validation-errors-ignored", "C02", "C02.R6", "schema.py", "    if validation_errors:\n        raise InvalidOperationForSchema(", "    if len(validation_errors) > 1:\n        raise InvalidOperationForSchema(")

# ----------------------------------------------------------------------- C04
M("c04-reserved-type", "C04", "C04.R1", RTF, "return GraphQLField(type_=GraphQLNonNull(type_=GraphQLString))", "return GraphQLField(type_=GraphQLNonNull(type_=GraphQLScalarType(name=\"String\")))")
M("c04-enums-not-reported", "C04", "C04.R2", PKF, "        enums_file_path.write_text(code)\n        self._generated_files.append(enums_file_path.name)", "        enums_file_path.write_text(code)")
M("c04-report-unsorted", "C04", "C04.R2", PKF, "        return sorted(self._generated_files)", "        return self._generated_files")
M("c04-copy-reports-source-only-when-plugin", "C04", "C04.R2", PKF, "            target_path.write_text(code)\n            self._generated_files.append(target_path.name)", "            target_path.write_text(code)\n            if self.plugin_manager:\n                self._generated_files.append(target_path.name)")
M("c04-validate-after-mkdir", "C04", "C04.R3", PKF, "        self._validate_unique_file_names()\n        if not self.package_path.exists():\n            self.package_path.mkdir()\n", "        if not self.package_path.exists():\n            self.package_path.mkdir()\n        self._validate_unique_file_names()\n")
M("c04-fragments-name-unchecked", "C04", "C04.R3", PKF, '                f"{self.fragments_module_name}.py",\n            ]\n            + list(self._result_types_files.keys())', '            ]\n            + list(self._result_types_files.keys())')
M("c04-includes-unchecked", "C04", "C04.R3", PKF, "            + list(self._result_types_files.keys())\n            + [f.name for f in self.files_to_include]\n        )", "            + list(self._result_types_files.keys())\n        )")
M("c04-all-missing-names", "C04", "C04.R5", CG + "init_file.py", "constants_names.extend([n.name for n in import_.names])", "constants_names.extend([n.name for n in import_.names[:1]])")
M("c04-rebuild-missing", "C04", "C04.R6", RTF, "            for class_def in self._class_defs\n            if model_has_forward_refs(class_def)\n        ]", "            for class_def in self._class_defs[:1]\n            if model_has_forward_refs(class_def)\n        ]")
M("c04-rebuild-before-classes", "C04", "C04.R6", CG + "input_types.py", "            cast(List[ast.stmt], self._imports)\n            + cast(List[ast.stmt], class_defs)\n            + cast(List[ast.stmt], model_rebuild_calls)", "            cast(List[ast.stmt], self._imports)\n            + cast(List[ast.stmt], model_rebuild_calls)\n            + cast(List[ast.stmt], class_defs)")
M("c04-keyerror-raised", "C04", "C04.R7", CG + "arguments.py", '            raise ParsingError(f"Argument type {name} not found in schema.")', '            raise KeyError(f"Argument type {name} not found in schema.")')
M("c04-enum-import-missing", "C04", "C04.R4", RTF, "            self._used_enums.extend(field_context.enums)\n", "")
M("c04-result-scalar-imports-missing", "C04", "C04.R4", RTF, "            self._imports.extend(generate_scalar_imports(scalar_data))\n\n        if (\n            isinstance(self.operation_definition", "            pass\n\n        if (\n            isinstance(self.operation_definition")
M("c04-return-type-import-missing", "C04", "C04.R4", CLF, "        self._add_import(\n            generate_import_from(names=[return_type], from_=return_type_module, level=1)\n        )", "        pass")
M("c04-used-inputs-not-recorded", "C04", "C04.R4", CG + "arguments.py", "            self._used_inputs.append(name)", "            pass")
M("c04-enum-not-recorded-result", "C04", "C04.R4", RFF, "    context.enums.append(type_.name)\n", "")
M("c04-benign-rename", "C04", None, PKF, "enums_file_path", "enums_path", count=0)

# ----------------------------------------------------------------------- C09
M("c09-enums-before-client", "C09", "C09.R1", PKF, "        self._generate_client()\n        self._generate_enums()\n", "        self._generate_enums()\n        self._generate_client()\n")
M("c09-enums-before-fragments", "C09", "C09.R1", PKF, "        self._generate_result_types()\n        self._generate_fragments()\n", "        self._generate_result_types()\n        self._generate_enums()\n        self._generate_fragments()\n")
M("c09-fragment-enums-dropped", "C09", "C09.R2", PKF, "        self._used_enums.extend(self.fragments_generator.get_used_enums())\n", "")
M("c09-arg-enums-dropped", "C09", "C09.R2", PKF, "        self._used_enums.extend(\n            self.client_generator.arguments_generator.get_used_enums()\n        )\n", "")
M("c09-result-enums-dropped", "C09", "C09.R2", PKF, "        self._used_enums.extend(query_types_generator.get_used_enums())\n", "")
M("c09-input-enums-before-generate", "C09", "C09.R3", PKF, "        if self.include_all_inputs:\n            module = self.input_types_generator.generate()", "        self._used_enums.extend(self.input_types_generator.get_used_enums())\n        if self.include_all_inputs:\n            module = self.input_types_generator.generate()")
M("c09-closure-first-only", "C09", "C09.R4", CG + "input_types.py", "        for name in types_to_include:\n            types_names.update(self._get_dependencies_of_type(name))", "        for name in types_to_include[:1]:\n            types_names.update(self._get_dependencies_of_type(name))")
M("c09-closure-not-transitive", "C09", "C09.R4", CG + "input_types.py", "                for neighbor in self._dependencies[node]:\n                    dfs(neighbor)", "                for neighbor in self._dependencies[node]:\n                    result.append(neighbor)")
M("c09-deps-only-required", "C09", "C09.R4", CG + "input_types.py", "            self._save_dependencies(root_type=definition.name, field_type=field_type)", "            if field_implementation.value is None:\n                self._save_dependencies(root_type=definition.name, field_type=field_type)")
M("c09-enum-deps-as-inputs", "C09", "C09.R4", CG + "input_types.py", "            self._used_enums[root_type].append(field_type)", "            self._dependencies[root_type].append(field_type)")
M("c09-used-enums-all-inputs", "C09", "C09.R4", CG + "input_types.py", "        for input_name in self._generated_public_names:\n            enums.extend(self._used_enums[input_name])", "        for input_name in self._generated_public_names[:-1]:\n            enums.extend(self._used_enums[input_name])")
M("c09-pruned-inputs-from-all", "C09", "C09.R3", PKF, "            used_inputs = self.client_generator.arguments_generator.get_used_inputs()\n", "            used_inputs = self.client_generator.arguments_generator.get_used_inputs()[:1]\n")

# ----------------------------------------------------------------------- C17
M("c17-keyword-accepted", "C17", "C17.R2", "settings.py", "    if not name.isidentifier() or iskeyword(name):", "    if not name.isidentifier() and not iskeyword(name):")
M("c17-fragments-name-unchecked", "C17", "C17.R1", "settings.py", "        assert_string_is_valid_python_identifier(self.fragments_module_name)\n", "")
M("c17-client-name-checked-late", "C17", "C17.R1", "settings.py", "        assert_string_is_valid_python_identifier(self.client_name)\n", "        if self.async_client:\n            assert_string_is_valid_python_identifier(self.client_name)\n")
M("c17-no-schema-source-ok", "C17", "C17.R1", "settings.py", "        if not self.schema_path and not self.remote_schema_url:", "        if not self.schema_path and self.remote_schema_url:")
M("c17-dir-check-inverted", "C17", "C17.R2", "settings.py", "    if not Path(path).is_dir():", "    if Path(path).is_file():")
M("c17-target-types", "C17", "C17.R2", "settings.py", 'if file_type not in ("py", "graphql", "gql"):', 'if file_type not in ("py", "graphql", "gql", "txt"):')
M("c17-header-var-empty-ok", "C17", "C17.R2", "settings.py", "        if not var_value:\n            raise InvalidConfiguration(\n                f\"Environment variable {env_var_name} not found.\"\n            )\n        return var_value", "        return var_value or \"\"")
M("c17-schema-validated-after-generate", "C17", "C17.R4", "main.py", "    schema = plugin_manager.process_schema(schema)\n    assert_valid_schema(schema)\n\n    fragments = []", "    schema = plugin_manager.process_schema(schema)\n\n    fragments = []")
M("c17-queries-validated-late", "C17", "C17.R4", "main.py", "    generated_files = package_generator.generate()\n", "    generated_files = package_generator.generate()\n    if settings.queries_path:\n        get_graphql_queries(settings.queries_path, schema)\n")
M("c17-settings-mkdir", "C17", "C17.R4", "config.py", "    section = get_section(config_dict).copy()\n", "    section = get_section(config_dict).copy()\n    Path(section.get(\"target_package_path\", \".\")).mkdir(exist_ok=True)\n")
M("c17-syntax-error-raw", "C17", "C17.R4", "schema.py", "    except GraphQLSyntaxError as exc:\n        raise InvalidGraphqlSyntax(f\"Invalid graphql syntax in file {path}\") from exc", "    except GraphQLSyntaxError:\n        raise")
M("c17-config-mutated", "C17", "C17.R6", "config.py", "    section = get_section(config_dict).copy()\n", "    section = get_section(config_dict)\n")
M("c17-unknown-keys-kept", "C17", "C17.R6", "config.py", "                for key, value in section.items()\n                if key in settings_fields_names\n            }\n        )\n    except TypeError as exc:\n        missing_fields = settings_fields_names.difference(section)\n        raise MissingConfiguration(\n            f\"Missing configuration fields: {', '.join(missing_fields)}\"\n        ) from exc\n\n\ndef get_section", "                for key, value in section.items()\n            }\n        )\n    except TypeError as exc:\n        missing_fields = settings_fields_names.difference(section)\n        raise MissingConfiguration(\n            f\"Missing configuration fields: {', '.join(missing_fields)}\"\n        ) from exc\n\n\ndef get_section")
M("c17-scalar-keyerror", "C17", "C17.R6", "config.py", "    except KeyError as exc:\n        raise MissingConfiguration(\n            \"Missing 'type' field for scalar definition\"\n        ) from exc", "    except KeyError:\n        raise")
M("c17-benign-reorder", "C17", None, "settings.py", "        assert_string_is_valid_python_identifier(self.enums_module_name)\n        assert_string_is_valid_python_identifier(self.input_types_module_name)\n", "        assert_string_is_valid_python_identifier(self.input_types_module_name)\n        assert_string_is_valid_python_identifier(self.enums_module_name)\n")

# ----------------------------------------------------------------------- C05
M("c05-nonnull-still-nullable", "C05", "C05.R1", RFF, "            type_=type_.of_type,\n            context=context,\n            nullable=False,\n            class_name=class_name,\n            add_type_name=False,\n        )\n\n    raise ParsingError", "            type_=type_.of_type,\n            context=context,\n            nullable=True,\n            class_name=class_name,\n            add_type_name=False,\n        )\n\n    raise ParsingError")
M("c05-list-items-inherit", "C05", "C05.R1", RFF, "        type_=cast(CodegenResultFieldType, type_.of_type),\n        context=context,\n        nullable=True,", "        type_=cast(CodegenResultFieldType, type_.of_type),\n        context=context,\n        nullable=nullable,")
M("c05-list-always-optional", "C05", "C05.R1", RFF, "    return generate_list_annotation(slice_=slice_, nullable=nullable)", "    return generate_list_annotation(slice_=slice_, nullable=True)")
M("c05-enum-always-optional", "C05", "C05.R2", RFF, "    context.enums.append(type_.name)\n    return generate_annotation_name(type_.name, nullable)", "    context.enums.append(type_.name)\n    return generate_annotation_name(type_.name, True)")
M("c05-scalar-drops-flag", "C05", "C05.R1", RFF, "        return parse_scalar_type(type_=type_, nullable=nullable, context=context)", "        return parse_scalar_type(type_=type_, nullable=True, context=context)")
M("c05-union-members-nullable", "C05", "C05.R1", RFF, "            type_=subtype,\n            context=context,\n            nullable=False,", "            type_=subtype,\n            context=context,\n            nullable=True,")
M("c05-entry-nonnull", "C05", "C05.R1", RFF, "        type_=type_,\n        context=context,\n        nullable=True,\n        add_type_name=False,", "        type_=type_,\n        context=context,\n        nullable=False,\n        add_type_name=False,")
M("c05-annotation-name-inverted", "C05", "C05.R2", "codegen.py", "    result = ast.Name(id=name)\n    return result if not nullable else generate_nullable_annotation(result)", "    result = ast.Name(id=name)\n    return result if nullable else generate_nullable_annotation(result)")
M("c05-union-never-optional", "C05", "C05.R2", "codegen.py", "    result = ast.Subscript(value=ast.Name(id=UNION), slice=ast.Tuple(elts=types))\n    return result if not nullable else generate_nullable_annotation(result)", "    result = ast.Subscript(value=ast.Name(id=UNION), slice=ast.Tuple(elts=types))\n    return result")
M("c05-mixin-makes-optional", "C05", "C05.R2", RFF, "    nullable_directives = (INCLUDE_DIRECTIVE_NAME, SKIP_DIRECTIVE_NAME)", "    nullable_directives = (INCLUDE_DIRECTIVE_NAME, SKIP_DIRECTIVE_NAME, \"mixin\")")
M("c05-skip-not-optional", "C05", "C05.R2", RFF, "    nullable_directives = (INCLUDE_DIRECTIVE_NAME, SKIP_DIRECTIVE_NAME)", "    nullable_directives = (INCLUDE_DIRECTIVE_NAME,)")
M("c05-conditional-no-default", "C05", "C05.R2", RFF, "        return annotation, generate_constant(None)\n\n    return annotation, None", "        return annotation, None\n\n    return annotation, None")
M("c05-typename-str", "C05", "C05.R3", RFF, "    return generate_subscript(value=generate_name(LITERAL), slice_=slice_)", "    return generate_name(\"str\")")
M("c05-typename-literal-skipped", "C05", "C05.R3", RFF, "    if field.name and field.name.value == TYPENAME_FIELD_NAME and typename_values:", "    if field.name and field.name.value == TYPENAME_ALIAS and typename_values:")
M("c05-id-int", "C05", "C05.R4", CG + "constants.py", '    "ID": "str",', '    "ID": "int",')
M("c05-unknown-scalar-str", "C05", "C05.R4", RFF, "    return generate_annotation_name(ANY, nullable)", "    return generate_annotation_name(\"str\", nullable)")
M("c05-benign-kw-order", "C05", None, RFF, "        return parse_scalar_type(type_=type_, nullable=nullable, context=context)", "        return parse_scalar_type(nullable=nullable, type_=type_, context=context)")

# ----------------------------------------------------------------------- C06
IFF = CG + "input_fields.py"
ITF = CG + "input_types.py"
M("c06-list-items-inherit", "C06", "C06.R1", IFF, "type_=type_.of_type, nullable=True, custom_scalars=custom_scalars", "type_=type_.of_type, nullable=nullable, custom_scalars=custom_scalars")
M("c06-nonnull-ignored", "C06", "C06.R1", IFF, "            type_=type_.of_type, nullable=False, custom_scalars=custom_scalars", "            type_=type_.of_type, nullable=nullable, custom_scalars=custom_scalars")
M("c06-enum-never-optional", "C06", "C06.R1", IFF, "            generate_annotation_name(name=type_.name, nullable=nullable),\n            type_.name,", "            generate_annotation_name(name=type_.name, nullable=False),\n            type_.name,")
M("c06-float-as-int", "C06", "C06.R2", IFF, "        return generate_constant(float(node.value))", "        return generate_constant(int(float(node.value)))")
M("c06-bool-string", "C06", "C06.R2", IFF, "        return generate_constant(bool(node.value))", "        return generate_constant(str(node.value))")
M("c06-null-default-dropped", "C06", "C06.R2", IFF, "    if isinstance(node, NullValueNode):\n        return generate_constant(None)\n", "")
M("c06-list-first-only", "C06", "C06.R2", IFF, "                    for v in node.values\n", "                    for v in node.values[:1]\n")
M("c06-object-keys-python", "C06", "C06.R2", IFF, "keys=[generate_constant(f.name.value) for f in node.fields],", "keys=[generate_constant(f.name.value.lower()) for f in node.fields],")
M("c06-nullable-becomes-required", "C06", "C06.R4", IFF, "        return generate_constant(None)\n\n    return None\n\n\ndef parse_input_const_value_node", "        return None\n\n    return None\n\n\ndef parse_input_const_value_node")
M("c06-default-ignored", "C06", "C06.R4", IFF, "    if node and node.default_value:\n        return parse_input_const_value_node(", "    if node and node.default_value and isinstance(node.type, NonNullTypeNode):\n        return parse_input_const_value_node(")
M("c06-alias-drops-default", "C06", "C06.R4", ITF, "                field_with_alias.keywords.append(\n                    generate_keyword(value=field_implementation.value, arg=\"default\")\n                )", "                pass")
M("c06-alias-drops-factory", "C06", "C06.R4", ITF, "                field_with_alias.keywords.extend(field_implementation.value.keywords)", "                pass")
M("c06-populate-by-name-off", "C06", "C06.R4", D + "base_model.py", "        populate_by_name=True,\n", "")

# ----------------------------------------------------------------------- C07
SCF = CG + "scalars.py"
M("c07-parse-always", "C07", "C07.R1", SCF, "    if data.parse_name:\n        return generate_subscript(", "    if data.type_name:\n        return generate_subscript(")
M("c07-serialize-on-results", "C07", "C07.R1", SCF, "                        func=generate_name(BEFORE_VALIDATOR),\n                        args=[generate_name(data.parse_name)],", "                        func=generate_name(BEFORE_VALIDATOR),\n                        args=[generate_name(data.serialize_name)],")
M("c07-after-validator", "C07", "C07.R1", CG + "constants.py", 'BEFORE_VALIDATOR = "BeforeValidator"', 'BEFORE_VALIDATOR = "AfterValidator"')
M("c07-optional-inside-annotated", "C07", "C05.R4", RFF, "        if nullable:\n            annotation = generate_nullable_annotation(annotation)\n        return annotation\n\n    return generate_annotation_name(ANY, nullable)", "        return annotation\n\n    return generate_annotation_name(ANY, nullable)")
M("c07-input-optional-dropped", "C07", "C07.R1", IFF, "            if nullable:\n                annotation = generate_nullable_annotation(annotation)\n            return (annotation, type_.name)", "            return (annotation, type_.name)")
M("c07-scalar-import-missing", "C07", "C04.R4", SCF, "            imports.append(generate_import_from(names=[object_name], from_=module_name))", "            pass")
M("c07-serialize-not-imported", "C07", "C04.R4", SCF, "name for name in (self.type_, self.serialize, self.parse) if name", "name for name in (self.type_, self.parse) if name")
M("c07-convert-value-skips-lists", "C07", "C11.R7", A, "        if isinstance(value, list):\n            return [self._convert_value(item) for item in value]\n        return value", "        return value")

# ----------------------------------------------------------------------- C03
ARF = CG + "arguments.py"
M("c03-key-python-name", "C03", "C03.R1", ARF, "            dict_.keys.append(generate_constant(org_name))", "            dict_.keys.append(generate_constant(name))")
M("c03-optional-default-none", "C03", "C03.R1", ARF, "            defaults=[generate_name(UNSET_NAME) for _ in optional_args],", "            defaults=[generate_constant(None) for _ in optional_args],")
M("c03-nullable-required", "C03", "C03.R1", ARF, "                optional_args.append(arg)\n            else:\n                required_args.append(arg)", "                required_args.append(arg)\n            else:\n                required_args.append(arg)")
M("c03-required-optional", "C03", "C03.R1", ARF, "            else:\n                required_args.append(arg)\n", "            else:\n                optional_args.append(arg)\n")
M("c03-value-other-name", "C03", "C03.R1", ARF, "            dict_.values.append(self._get_dict_value(name, used_custom_scalar))", "            dict_.values.append(self._get_dict_value(org_name, used_custom_scalar))")
M("c03-alias-when-equal-only", "C03", "C03.R4", ITF, "            if name != org_name:\n                field_implementation.value = self._process_field_value(", "            if name == org_name:\n                field_implementation.value = self._process_field_value(")
M("c03-alias-python-name", "C03", "C03.R4", ITF, "                    field_implementation=field_implementation, alias=org_name", "                    field_implementation=field_implementation, alias=name")
M("c03-locals-not-renamed", "C03", "C03.R5", CLF, '                f"_{variable}" if variable in argument_names else variable', "                variable")
M("c03-unset-sent-as-null", "C03", "C11.R7", S, "            if value is not UNSET\n", "")
M("c03-exclude-unset-dropped", "C03", "C11.R7", A, "value.model_dump(by_alias=True, exclude_unset=True)", "value.model_dump(by_alias=True)")
