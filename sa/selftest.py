"""Self-test of the checker (thorough tier).  Each mutant is a small edit of the
*current* tree held in memory (never written to disk, never executed): it must
still parse, and the named rule must report it.  Benign variants must stay
silent.  A mutant whose anchor text is no longer present is skipped and counted
(the tree under analysis may legitimately have changed).  An undetected mutant or
a flagged benign variant is an ANALYSIS-ERROR (the checker is broken), never a
violation of the property."""
from __future__ import annotations

import ast
from dataclasses import dataclass, field
from typing import Dict, List, Optional

from .model import Repo
from . import report

PKG = "ariadne_codegen/"


@dataclass
class Mutant:
    mid: str
    prop: str
    rule: Optional[str]  # rule expected to fire (None = benign variant, nothing may fire)
    path: str  # relative to ariadne_codegen/
    old: str
    new: str
    count: int = 1  # how many occurrences are replaced (0 = all)
    note: str = ""
    more: tuple = ()  # further edits ((path, old, new), ...) applied together with the first one (multi-hunk / multi-file changes)


MUTANTS: List[Mutant] = []


def M(mid, prop, rule, path, old, new, count=1, note="", more=()):
    MUTANTS.append(Mutant(mid, prop, rule, path, old, new, count, note, tuple(more)))


@dataclass
class SelfTestResult:
    summary: dict
    errors: List[str] = field(default_factory=list)
    notes: List[str] = field(default_factory=list)


def apply_mutant(repo: Repo, m: Mutant) -> Optional[Repo]:
    ov = dict(repo.overrides)
    for path, old, new, count in ((m.path, m.old, m.new, m.count),) + tuple((a, b, c, 1) for a, b, c in m.more):
        rel = PKG + path
        mod = None
        for x in repo.modules.values():
            if x.relpath == rel:
                mod = x
        cur = ov.get(rel, mod.source if mod is not None else None)
        if cur is None or old not in cur:
            return None
        src = cur.replace(old, new) if count == 0 else cur.replace(old, new, count)
        try:
            ast.parse(src)
        except SyntaxError:
            return None
        ov[rel] = src
    return Repo(str(repo.root), ov)


def _run_mutants(repo: Repo, prop: str, todo):
    """the mutants of one property are independent: run them in worker processes (the check is CPU bound)"""
    import os
    jobs = int(os.environ.get("VERIF_JOBS", "0") or 0) or min(12, os.cpu_count() or 1)
    if jobs <= 1 or len(todo) <= 2:
        out = []
        for m in todo:
            r2 = apply_mutant(repo, m)
            if r2 is None:
                out.append(None)
                continue
            res = report.run_property(r2, prop, "quick")
            out.append((res.findings, res.errors))
        return out
    import multiprocessing as mp
    ctx = mp.get_context("fork")
    with ctx.Pool(jobs) as pool:
        return pool.map(_one_forked, [(prop, i) for i in range(len(todo))], chunksize=1)


_FORK_REPO = None


def _one_forked(args):
    prop, idx = args
    repo = _FORK_REPO
    todo = [m for m in MUTANTS if m.prop == prop]
    m = todo[idx]
    r2 = apply_mutant(repo, m)
    if r2 is None:
        return None
    res = report.run_property(r2, prop, "quick")
    return res.findings, res.errors


def run_selftest(prop: str, repo: Repo) -> SelfTestResult:
    from . import mutants  # noqa: F401  (registers MUTANTS)
    todo = [m for m in MUTANTS if m.prop == prop]
    killed, skipped, missed, benign_ok, benign_bad = [], [], [], [], []
    baseline = {f.ident() for f in report.run_property(repo, prop, "quick").findings}
    global _FORK_REPO
    _FORK_REPO = repo
    results = _run_mutants(repo, prop, todo)
    for m, r in zip(todo, results):
        if r is None:
            skipped.append(m.mid)
            continue
        findings, errors = r

        class _R:  # same shape as the sequential result
            pass
        res = _R()
        res.findings, res.errors = findings, errors
        new = [f for f in res.findings if f.ident() not in baseline]
        if m.rule is None:
            if new or res.errors:
                benign_bad.append(f"{m.mid}: {[f.rule + ' ' + f.key for f in new][:2]} {res.errors[:1]}")
            else:
                benign_ok.append(m.mid)
            continue
        hit = [f for f in new if f.rule == m.rule or m.rule == "*"]
        if hit:
            killed.append(m.mid)
        else:
            missed.append(f"{m.mid} (expected {m.rule}; got {[f.rule for f in new][:3]}{' errors=' + str(res.errors[:1]) if res.errors else ''})")
    st = SelfTestResult({
        "mutants": len(todo), "killed": len(killed), "skipped_anchor_changed": skipped,
        "missed": missed, "benign_variants_silent": len(benign_ok), "benign_variants_flagged": benign_bad,
    })
    for x in missed:
        st.errors.append(f"selftest: mutant not detected: {x}")
    for x in benign_bad:
        st.errors.append(f"selftest: benign variant flagged: {x}")
    st.notes.append(f"selftest {prop}: {len(killed)}/{len(todo)} mutants detected, {len(skipped)} skipped, "
                    f"{len(benign_ok)} benign variants silent")
    return st
