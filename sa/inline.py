"""Load-time normal form: private helpers that do not exist on the pinned tree are inlined back into their callers,
and a private function that was merely renamed gets its pinned name back.

"Extract a helper" is the most frequent behaviour-preserving refactor; the rules are anchored in the functions of the
pinned tree and read their bodies.  A function `f` of module M is a *new helper* when M exists on the pinned tree
(sa/pinned.json) but `f` does not.  A new helper is inlined at a call site when this is a purely syntactic
substitution that cannot change behaviour:

  * the helper is a plain (non-async, non-generator, undecorated, non-recursive) function or method called as
    `f(...)` / `self.f(...)` from the same module / class, with arguments that bind to its parameters statically;
  * E-form  body `return <expr>`                      -> the call expression is replaced by <expr>
  * S-form  the call is the whole value of `x = f(..)`, `return f(..)`, `f(..)`  -> the body is spliced in; `return e`
    becomes `x = e` / `return e` / `e` (returns may sit in if/else chains, not inside loops / try / with);
  * parameters are replaced by the argument expressions when those are atomic (names, attribute chains, constants) or
    the parameter is read once; otherwise `param = arg` is emitted first (statement contexts only);
  * the helper's locals are renamed when they would clash with names of the caller.

When every call of a helper has been inlined and nothing else refers to it, its definition is dropped.  Anything that
does not fit is left exactly as written (the rules then see the helper call; they may report an analysis error, never
a wrong verdict because of the inlining)."""
from __future__ import annotations

import ast
import copy
from typing import Dict, List, Optional, Set, Tuple

from .canon import pinned

MAX_ROUNDS = 3


def _outer_functions(tree: ast.Module):
    """(qualname, node, owner body list, class node or None) for module-level functions and methods"""
    out = []
    for st in tree.body:
        if isinstance(st, (ast.FunctionDef, ast.AsyncFunctionDef)):
            out.append((st.name, st, tree.body, None))
        elif isinstance(st, ast.ClassDef):
            for s2 in st.body:
                if isinstance(s2, (ast.FunctionDef, ast.AsyncFunctionDef)):
                    out.append((f"{st.name}.{s2.name}", s2, st.body, st))
    return out


def _params(fn) -> List[str]:
    a = fn.args
    return [x.arg for x in a.posonlyargs + a.args + a.kwonlyargs]


def _is_atomic(e: ast.expr) -> bool:
    if isinstance(e, (ast.Name, ast.Constant)):
        return True
    if isinstance(e, ast.Attribute):
        return _is_atomic(e.value)
    return False


def _has_call(e: ast.expr) -> bool:
    return any(isinstance(n, (ast.Call, ast.Await, ast.Yield, ast.YieldFrom, ast.NamedExpr)) for n in ast.walk(e))


def _returns_only_in_if_chains(body: List[ast.stmt]) -> bool:
    """every Return is a direct statement of the body or of an if/else nest, or sits at the end of a `try` that is the
    last statement of its block (then leaving the try equals returning)"""
    for idx, st in enumerate(body):
        if isinstance(st, ast.Return):
            continue
        if isinstance(st, ast.Try) and idx == len(body) - 1 and not st.finalbody and not st.orelse:
            if not _returns_only_in_if_chains(st.body) or any(not _returns_only_in_if_chains(h.body) for h in st.handlers):
                return False
            continue
        if isinstance(st, ast.If):
            if not _returns_only_in_if_chains(st.body) or not _returns_only_in_if_chains(st.orelse):
                return False
            continue
        if isinstance(st, (ast.FunctionDef, ast.AsyncFunctionDef, ast.ClassDef)):
            continue
        if any(isinstance(n, ast.Return) for n in ast.walk(st)):
            return False
    return True


def _always_returns(body: List[ast.stmt]) -> bool:
    if not body:
        return False
    last = body[-1]
    if isinstance(last, (ast.Return, ast.Raise)):
        return True
    if isinstance(last, ast.Try) and not last.finalbody and not last.orelse:
        return _always_returns(last.body) and all(_always_returns(h.body) for h in last.handlers)
    if isinstance(last, ast.If) and last.orelse:
        return _always_returns(last.body) and _always_returns(last.orelse)
    return False


def _assignify(body: List[ast.stmt], make) -> List[ast.stmt]:
    """rewrite `return e` into make(e); statements after a guard `if c: ... return` move into its else branch"""
    out: List[ast.stmt] = []
    for i, st in enumerate(body):
        if isinstance(st, ast.Return):
            out.extend(make(st.value))
            return out
        if isinstance(st, ast.Try) and i == len(body) - 1 and not st.finalbody and not st.orelse and any(isinstance(n, ast.Return) for n in ast.walk(st)):
            new_try = ast.Try(body=_assignify(st.body, make) or [ast.Pass()], handlers=[], orelse=[], finalbody=[])
            for h in st.handlers:
                nh = ast.ExceptHandler(type=h.type, name=h.name, body=_assignify(h.body, make) or [ast.Pass()])
                ast.copy_location(nh, h)
                new_try.handlers.append(nh)
            out.append(ast.copy_location(new_try, st))
            return out
        if isinstance(st, ast.If) and any(isinstance(n, ast.Return) for n in ast.walk(st)):
            rest = body[i + 1:]
            new_body = _assignify(st.body, make)
            if _always_returns(st.body) and not st.orelse:
                new_else = _assignify(rest, make)
                out.append(ast.copy_location(ast.If(test=st.test, body=new_body or [ast.Pass()], orelse=new_else), st))
                return out
            new_else = _assignify(st.orelse, make) if st.orelse else []
            if _always_returns(st.body) and st.orelse and _always_returns(st.orelse):
                out.append(ast.copy_location(ast.If(test=st.test, body=new_body or [ast.Pass()], orelse=new_else), st))
                return out
            if _always_returns(st.body) or (st.orelse and _always_returns(st.orelse)):
                # one branch exits, the other falls through to the rest
                if _always_returns(st.body):
                    out.append(ast.copy_location(ast.If(test=st.test, body=new_body, orelse=(new_else + _assignify(rest, make))), st))
                else:
                    out.append(ast.copy_location(ast.If(test=st.test, body=new_body + _assignify(rest, make), orelse=new_else), st))
                return out
            raise _NoInline("conditional return that may fall through")
        out.append(st)
    return out


def _as_expr(body: List[ast.stmt], boolean: bool) -> Optional[ast.expr]:
    """value of a body made only of `if c: return a` guards (no else) and a final `return z`, as one expression.
    In a boolean context (`boolean`) `if c: return True` gives `c or rest`, `if c: return False` gives `not c and rest`."""
    if not body:
        return None
    st = body[0]
    if isinstance(st, ast.Return):
        return st.value if st.value is not None else ast.Constant(value=None)
    if isinstance(st, ast.If) and not st.orelse and len(st.body) == 1 and isinstance(st.body[0], ast.Return) and st.body[0].value is not None:
        rest = _as_expr(body[1:], boolean)
        if rest is None:
            return None
        val = st.body[0].value
        if boolean and isinstance(val, ast.Constant) and val.value is True:
            vals = [st.test] + (rest.values if isinstance(rest, ast.BoolOp) and isinstance(rest.op, ast.Or) else [rest])
            return ast.BoolOp(op=ast.Or(), values=vals)
        if boolean and isinstance(val, ast.Constant) and val.value is False:
            return ast.BoolOp(op=ast.And(), values=[ast.UnaryOp(op=ast.Not(), operand=st.test), rest])
        return ast.IfExp(test=st.test, body=val, orelse=rest)
    return None


def _boolean_positions(caller) -> Set[int]:
    """ids of expression nodes of `caller` whose value is only tested for truth"""
    out: Set[int] = set()

    def mark(e):
        out.add(id(e))
        if isinstance(e, ast.BoolOp):
            for v in e.values:
                mark(v)
        elif isinstance(e, ast.UnaryOp) and isinstance(e.op, ast.Not):
            mark(e.operand)
    for n in ast.walk(caller):
        if isinstance(n, (ast.If, ast.While, ast.IfExp, ast.Assert)):
            mark(n.test)
        elif isinstance(n, ast.comprehension):
            for c in n.ifs:
                mark(c)
        elif isinstance(n, ast.UnaryOp) and isinstance(n.op, ast.Not):
            mark(n.operand)
    return out


_PURE_NAMES = {"cast", "str", "len", "sorted", "list", "set", "tuple", "dict", "isinstance", "frozenset", "repr", "int", "bool"}


def _pure_constructor(c: ast.Call) -> bool:
    f = c.func
    if isinstance(f, ast.Attribute) and isinstance(f.value, ast.Name) and f.value.id == "ast":
        return True
    if isinstance(f, ast.Name) and (f.id in _PURE_NAMES or f.id.startswith("generate_")):
        return True
    return False


class _NoInline(Exception):
    pass


class _Helper:
    def __init__(self, qual: str, node, owner_body, cls):
        self.qual, self.node, self.owner_body, self.cls = qual, node, owner_body, cls
        self.name = node.name
        self.is_method = cls is not None
        self.params = _params(node)
        self.static = any(isinstance(d, ast.Name) and d.id == "staticmethod" for d in node.decorator_list)
        if self.is_method and not self.static and self.params and self.params[0] == "self":
            self.params = self.params[1:]
        a = node.args
        pos = a.posonlyargs + a.args
        self.defaults: Dict[str, ast.expr] = {}
        for p, d in zip(pos[len(pos) - len(a.defaults):], a.defaults):
            self.defaults[p.arg] = d
        for p, d in zip(a.kwonlyargs, a.kw_defaults):
            if d is not None:
                self.defaults[p.arg] = d
        self.kwonly = {x.arg for x in a.kwonlyargs}
        self.body = node.body
        self.e_form = len(self.body) == 1 and isinstance(self.body[0], ast.Return) and self.body[0].value is not None
        self.comp_vars = {n.id for c in ast.walk(node) if isinstance(c, ast.comprehension) for n in ast.walk(c.target) if isinstance(n, ast.Name)}
        comp_ids = {id(n) for c in ast.walk(node) if isinstance(c, ast.comprehension) for n in ast.walk(c.target)}
        self.locals = sorted({n.id for n in ast.walk(node) if isinstance(n, ast.Name) and isinstance(n.ctx, (ast.Store, ast.Del)) and id(n) not in comp_ids} - set(_params(node)))
        self.stores_params = {n.id for n in ast.walk(node) if isinstance(n, ast.Name) and isinstance(n.ctx, (ast.Store, ast.Del))} & set(self.params)

    def eligible(self) -> Optional[str]:
        n = self.node
        if isinstance(n, ast.AsyncFunctionDef):
            return "async"
        if n.decorator_list and not (len(n.decorator_list) == 1 and isinstance(n.decorator_list[0], ast.Name) and n.decorator_list[0].id == "staticmethod"):
            return "decorated"
        if n.args.vararg or n.args.kwarg:
            return "varargs"
        if self.is_method and not self.static and (not _params(n) or _params(n)[0] != "self"):
            return "not an instance method"
        for x in ast.walk(n):
            if isinstance(x, (ast.Yield, ast.YieldFrom, ast.Global, ast.Nonlocal)):
                return "generator / global"
            if x is not n and isinstance(x, (ast.FunctionDef, ast.AsyncFunctionDef, ast.ClassDef, ast.Lambda)) and False:
                return "nested def"
            if isinstance(x, ast.Call):
                f = x.func
                if (isinstance(f, ast.Name) and f.id == self.name and not self.is_method) or \
                        (isinstance(f, ast.Attribute) and f.attr == self.name and isinstance(f.value, ast.Name) and f.value.id == "self" and self.is_method):
                    return "recursive"
        if not self.e_form and not _returns_only_in_if_chains(self.body):
            return "return inside loop / try / with"
        # a helper that fills a container living outside of it and hands back what it finds there is a cache, not an
        # extracted piece of its caller: it stays a function (the state rules look at it as such)
        local = {x.id for x in ast.walk(n) if isinstance(x, ast.Name) and isinstance(x.ctx, ast.Store)}

        def root(e):
            while isinstance(e, (ast.Attribute, ast.Subscript)):
                e = e.value
            return e.id if isinstance(e, ast.Name) else None
        filled = {ast.dump(x.targets[0].value) for x in ast.walk(n) if isinstance(x, ast.Assign) and len(x.targets) == 1 and isinstance(x.targets[0], ast.Subscript)
                  and root(x.targets[0]) not in local}
        filled |= {ast.dump(x.func.value) for x in ast.walk(n) if isinstance(x, ast.Call) and isinstance(x.func, ast.Attribute) and x.func.attr == "setdefault" and root(x.func.value) not in local}
        if filled:
            for x in ast.walk(n):
                if isinstance(x, ast.Subscript) and isinstance(x.ctx, ast.Load) and ast.dump(x.value) in filled:
                    return "fills and reads a container outside of it (cache)"
                if isinstance(x, ast.Call) and isinstance(x.func, ast.Attribute) and x.func.attr in ("get", "setdefault") and ast.dump(x.func.value) in filled:
                    return "fills and reads a container outside of it (cache)"
        return None


def _bind(h: _Helper, call: ast.Call) -> Optional[Dict[str, ast.expr]]:
    if any(isinstance(a, ast.Starred) for a in call.args) or any(k.arg is None for k in call.keywords):
        return None
    pos = [p for p in h.params if p not in h.kwonly]
    if len(call.args) > len(pos):
        return None
    b: Dict[str, ast.expr] = {}
    for p, a in zip(pos, call.args):
        b[p] = a
    for k in call.keywords:
        if k.arg not in h.params or k.arg in b:
            return None
        b[k.arg] = k.value
    for p in h.params:
        if p not in b:
            if p not in h.defaults:
                return None
            b[p] = copy.deepcopy(h.defaults[p])
    return b


class _Sub(ast.NodeTransformer):
    def __init__(self, mapping: Dict[str, ast.expr], rename: Dict[str, str]):
        self.m, self.r = mapping, rename

    def visit_Name(self, n):
        if n.id in self.r:
            return ast.copy_location(ast.Name(id=self.r[n.id], ctx=n.ctx), n)
        if isinstance(n.ctx, ast.Load) and n.id in self.m:
            return copy.deepcopy(self.m[n.id])
        return n

    def visit_arg(self, n):
        return n


def _reads(node, name: str) -> int:
    return sum(1 for n in ast.walk(node) if isinstance(n, ast.Name) and n.id == name and isinstance(n.ctx, ast.Load))


def _in_repeating_context(fn, name: str) -> bool:
    """is `name` read inside a loop / comprehension / lambda / nested def of fn (evaluated more than once or later)?"""
    for n in ast.walk(fn):
        if isinstance(n, (ast.For, ast.AsyncFor, ast.While, ast.ListComp, ast.SetComp, ast.DictComp, ast.GeneratorExp, ast.Lambda)) or \
                (n is not fn and isinstance(n, (ast.FunctionDef, ast.AsyncFunctionDef))):
            if _reads(n, name):
                return True
    return False


def _prepare(h: _Helper, call: ast.Call, caller, stmt_ctx: bool) -> Optional[Tuple[List[ast.stmt], Dict[str, ast.expr], Dict[str, str]]]:
    """(prologue assignments, param substitution, local renames) or None when the call cannot be inlined"""
    b = _bind(h, call)
    if b is None:
        return None
    if h.comp_vars and any(isinstance(n, ast.Name) and n.id in h.comp_vars for a in b.values() for n in ast.walk(a)):
        return None  # an argument mentions a name that a comprehension of the helper binds (capture)
    caller_names = {n.id for n in ast.walk(caller) if isinstance(n, ast.Name)} | set(_params(caller))
    rename: Dict[str, str] = {}
    for loc in h.locals:
        if loc in caller_names:
            rename[loc] = f"{loc}__{h.name.strip('_')}"
    pro: List[ast.stmt] = []
    sub: Dict[str, ast.expr] = {}
    for p in h.params:
        arg = b[p]
        if p in h.stores_params:
            direct = False
        elif _is_atomic(arg) or isinstance(arg, ast.Lambda):
            direct = True      # evaluating a lambda expression has no effect: it may be repeated where the parameter is read
        elif _reads(h.node, p) <= 1 and not _in_repeating_context(h.node, p):
            direct = True
        elif not _has_call(arg) and not stmt_ctx:
            direct = True
        else:
            direct = False
        if direct:
            sub[p] = arg
        else:
            if not stmt_ctx:
                return None
            tgt = p if p not in caller_names or (isinstance(arg, ast.Name) and arg.id == p) else f"{p}__{h.name.strip('_')}"
            if tgt != p:
                rename[p] = tgt
            if not (isinstance(arg, ast.Name) and arg.id == tgt):
                pro.append(ast.Assign(targets=[ast.Name(id=tgt, ctx=ast.Store())], value=arg, type_comment=None))
    return pro, sub, rename


def _call_of(h: _Helper, e) -> bool:
    if not isinstance(e, ast.Call):
        return False
    f = e.func
    if h.is_method:
        return isinstance(f, ast.Attribute) and f.attr == h.name and isinstance(f.value, ast.Name) and f.value.id == "self"
    return isinstance(f, ast.Name) and f.id == h.name


def _inline_into(h: _Helper, caller) -> int:
    """inline calls of h inside caller; returns number of inlined sites"""
    done = 0

    def splice(st: ast.stmt) -> Optional[List[ast.stmt]]:
        nonlocal done
        call = None
        kind = None
        if isinstance(st, ast.Return) and _call_of(h, st.value):
            call, kind = st.value, "return"
        elif isinstance(st, ast.Expr) and _call_of(h, st.value):
            call, kind = st.value, "expr"
        elif isinstance(st, ast.Assign) and _call_of(h, st.value):
            call, kind = st.value, "assign"
        elif isinstance(st, ast.AugAssign) and _call_of(h, st.value):
            call, kind = st.value, "aug"
        if call is None and not h.e_form and _as_expr(h.body, False) is None:
            hoisted = hoist(st)
            if hoisted is not None:
                return hoisted
        if call is None or h.e_form:
            return None
        prep = _prepare(h, call, caller, True)
        if prep is None:
            return None
        pro, sub, rename = prep
        # `X = h(..)` where h ends with `return L` (L a local of h): L simply becomes X
        last = h.body[-1] if h.body else None
        if kind == "assign" and len(st.targets) == 1 and isinstance(st.targets[0], ast.Name) and isinstance(last, ast.Return) and isinstance(last.value, ast.Name) \
                and last.value.id in h.locals:
            X, L = st.targets[0].id, last.value.id
            helper_names = {n.id for n in ast.walk(h.node) if isinstance(n, ast.Name)} | set(h.params)
            if not any(isinstance(n, ast.Name) and n.id == X for a in list(call.args) + [k.value for k in call.keywords] for n in ast.walk(a)) and (X == L or X not in helper_names) \
                    and X not in rename.values():
                rename = dict(rename)
                rename[L] = X
        body = [_Sub(sub, rename).visit(copy.deepcopy(s)) for s in h.body]

        def make(val):
            if kind == "assign" and len(st.targets) == 1 and isinstance(st.targets[0], ast.Name) and isinstance(val, ast.Name) and val.id == st.targets[0].id:
                return []
            if kind == "return":
                return [ast.Return(value=val)]
            if kind == "expr":
                return [ast.Expr(value=val)] if val is not None and _has_call(val) else []
            if kind == "assign":
                return [ast.Assign(targets=copy.deepcopy(st.targets), value=val if val is not None else ast.Constant(value=None), type_comment=None)]
            return [ast.AugAssign(target=copy.deepcopy(st.target), op=st.op, value=val if val is not None else ast.Constant(value=None))]
        try:
            if kind == "return":
                new = body if _always_returns(body) else body + [ast.Return(value=None)]
            else:
                new = _assignify(body, make)
                if not _always_returns(h.body) and kind in ("assign", "aug"):
                    # falling off the end returns None
                    if not any(isinstance(n, ast.Return) for s in h.body for n in ast.walk(s)):
                        new = new + make(None)
                    else:
                        raise _NoInline("may fall off the end")
        except _NoInline:
            return None
        out = pro + new
        for s in out:
            ast.copy_location(s, st)
            ast.fix_missing_locations(s)
        done += 1
        return out

    def hoist(st: ast.stmt) -> Optional[List[ast.stmt]]:
        """`x = g(a, self._h(b))`: the helper's body is spliced in front and the call replaced by its result variable,
        provided nothing that is evaluated before the call inside the statement can have an effect"""
        nonlocal done
        if isinstance(st, (ast.Assign, ast.AugAssign, ast.AnnAssign, ast.Return, ast.Expr)):
            root = st.value
        elif isinstance(st, ast.If):
            root = st.test
        else:
            return None
        if root is None:
            return None
        order: List[ast.AST] = []

        def evalorder(e):
            """post-order = evaluation order for calls / operators (lazy constructs stop the search)"""
            if isinstance(e, (ast.Lambda, ast.ListComp, ast.SetComp, ast.DictComp, ast.GeneratorExp, ast.IfExp, ast.BoolOp)):
                order.append(e)
                return
            for c in ast.iter_child_nodes(e):
                if isinstance(c, ast.expr):
                    evalorder(c)
                elif isinstance(c, ast.keyword):
                    evalorder(c.value)
            order.append(e)
        evalorder(root)
        target = None
        for e in order:
            if _call_of(h, e):
                target = e
                break
            if isinstance(e, ast.Call) and _pure_constructor(e):
                continue  # building an AST node / a builtin value has no effect the helper could observe
            if isinstance(e, (ast.Call, ast.Await, ast.Lambda, ast.ListComp, ast.SetComp, ast.DictComp, ast.GeneratorExp, ast.IfExp, ast.BoolOp, ast.NamedExpr)):
                if any(_call_of(h, x) for x in ast.walk(e)):
                    return None  # the call sits under a lazy / repeated construct
                return None  # something effectful is evaluated first
        if target is None:
            return None
        prep = _prepare(h, target, caller, True)
        if prep is None:
            return None
        pro, sub, rename = prep
        body = [_Sub(sub, rename).visit(copy.deepcopy(s)) for s in h.body]
        last = h.body[-1]
        caller_names = {n.id for n in ast.walk(caller) if isinstance(n, ast.Name)}
        if isinstance(last, ast.Return) and isinstance(last.value, ast.Name) and last.value.id in h.locals:
            res = rename.get(last.value.id, last.value.id)
        else:
            res = base_res = f"{h.name.strip('_')}_result"
            i_res = 2
            while res in caller_names:      # an earlier site of the same helper in this caller took the plain name
                res = f"{base_res}_{i_res}"
                i_res += 1

        def make(val):
            if isinstance(val, ast.Name) and val.id == res:
                return []
            return [ast.Assign(targets=[ast.Name(id=res, ctx=ast.Store())], value=val if val is not None else ast.Constant(value=None), type_comment=None)]
        try:
            new = _assignify(body, make)
        except _NoInline:
            return None
        if not _always_returns(h.body):
            return None

        class R(ast.NodeTransformer):
            def visit_Call(self, node):
                if node is target:
                    return ast.copy_location(ast.Name(id=res, ctx=ast.Load()), node)
                return self.generic_visit(node)
        st2 = R().visit(st)
        out = pro + new + [st2]
        for x in out:
            ast.copy_location(x, st)
            ast.fix_missing_locations(x)
        done += 1
        return out

    def walk_block(body: List[ast.stmt]) -> List[ast.stmt]:
        out: List[ast.stmt] = []
        for st in body:
            r = splice(st)
            if r is not None:
                out.extend(walk_block(r) if False else r)
                continue
            for fld in ("body", "orelse", "finalbody"):
                b = getattr(st, fld, None)
                if isinstance(b, list) and b and isinstance(b[0], ast.stmt) and not isinstance(st, (ast.FunctionDef, ast.AsyncFunctionDef, ast.ClassDef)):
                    setattr(st, fld, walk_block(b))
            if isinstance(st, ast.Try):
                for hd in st.handlers:
                    hd.body = walk_block(hd.body)
            out.append(st)
        return out or [ast.Pass()]

    caller.body = walk_block(caller.body)

    if _as_expr(h.body, False) is not None and not h.locals:
        boolpos = _boolean_positions(caller)

        class E(ast.NodeTransformer):
            def visit_Call(self, node):
                nonlocal done
                is_bool = id(node) in boolpos
                self.generic_visit(node)
                if _call_of(h, node):
                    prep = _prepare(h, node, caller, False)
                    if prep is not None:
                        pro, sub, rename = prep
                        if not pro and not rename:
                            val = _as_expr(copy.deepcopy(h.body), is_bool)
                            done += 1
                            return ast.copy_location(_Sub(sub, {}).visit(val), node)
                return node

        E().visit(caller)  # nested functions / classes included: an expression is substituted where it stands
    return done


def _refs(tree: ast.AST, h: _Helper, skip) -> int:
    n = 0
    for x in ast.walk(tree):
        if x is skip:
            continue
        if h.is_method:
            if isinstance(x, ast.Attribute) and x.attr == h.name:
                n += 1
        elif isinstance(x, ast.Name) and x.id == h.name:
            n += 1
    return n


def rename_back(relpath: str, tree: ast.Module) -> List[str]:
    """a private function that vanished while exactly one new private function with the same parameter list appeared in
    the same scope is taken to be renamed: the pinned name is restored (definition and references)"""
    pin = pinned()
    known = set(pin["functions"].get(relpath, []))
    if not known:
        return []
    funcs = _outer_functions(tree)
    present = {q for q, *_ in funcs}
    done = []
    scopes: Dict[str, List] = {}
    for q, node, owner, cls in funcs:
        scopes.setdefault(q.rsplit(".", 1)[0] if "." in q else "", []).append((q, node, cls))
    for scope, items in scopes.items():
        missing = [k for k in known if (k.rsplit(".", 1)[0] if "." in k else "") == scope and k.count(".") == (1 if scope else 0) and k not in present and k.rsplit(".", 1)[-1].startswith("_")
                   and not k.rsplit(".", 1)[-1].startswith("__")]
        new = [(q, node, cls) for q, node, cls in items if q not in known and node.name.startswith("_") and not node.name.startswith("__")]
        if not missing or not new:
            continue
        sigs = pin["sigs"]
        for k in missing:
            kname = k.rsplit(".", 1)[-1]
            ksigs = [s for s in sigs.get(kname, [])]
            cands = [(q, node, cls) for q, node, cls in new if any(len(s["pos"]) == len(node.args.posonlyargs + node.args.args) and len(s["kwonly"]) == len(node.args.kwonlyargs) for s in ksigs)]
            if len(cands) == 1 and sum(1 for m in missing if any(len(s["pos"]) == len(cands[0][1].args.posonlyargs + cands[0][1].args.args) for s in sigs.get(m.rsplit(".", 1)[-1], []))) == 1:
                q, node, cls = cands[0]
                old = node.name
                # a pure rename leaves no reference to the old name behind (a forgotten call site is a behavioural change)
                if any((isinstance(x, ast.Attribute) and x.attr == kname) or (isinstance(x, ast.Name) and x.id == kname) for x in ast.walk(tree)):
                    continue
                for x in ast.walk(tree):
                    if cls is not None and isinstance(x, ast.Attribute) and x.attr == old:
                        x.attr = kname
                    elif cls is None and isinstance(x, ast.Name) and x.id == old:
                        x.id = kname
                node.name = kname
                new.remove(cands[0])
                done.append(f"{q}->{k}")
    return done


def renest_recursive_helpers(relpath: str, tree: ast.Module, known: Set[str]) -> List[str]:
    """reverse lambda lifting: a NEW private recursive function M that is called from exactly one other function F, and
    whose recursive calls pass some parameters on unchanged, is moved back into F as a closure over those parameters:
        def _visit(self, name, deps, visited, out): ...; self._visit(d, deps, visited, out)      (method, new)
        F: self._visit(root, deps, visited, out)
    becomes, inside F,  def _visit(name): ... _visit(d) ...  with deps / visited / out read from F's scope."""
    done: List[str] = []
    funcs = _outer_functions(tree)
    for q, node, owner, cls in funcs:
        if q in known or node.name.startswith("__") or not node.name.startswith("_") or isinstance(node, ast.AsyncFunctionDef) or node.decorator_list:
            continue
        if node.args.vararg or node.args.kwarg or any(isinstance(x, (ast.Yield, ast.YieldFrom)) for x in ast.walk(node)):
            continue
        is_method = cls is not None
        params = _params(node)
        if is_method:
            if not params or params[0] != "self":
                continue
            params = params[1:]

        def is_call(c):
            f = c.func
            if is_method:
                return isinstance(f, ast.Attribute) and f.attr == node.name and isinstance(f.value, ast.Name) and f.value.id == "self"
            return isinstance(f, ast.Name) and f.id == node.name

        def bind(c):
            if any(isinstance(a, ast.Starred) for a in c.args) or any(k.arg is None for k in c.keywords) or len(c.args) > len(params):
                return None
            b = dict(zip(params, c.args))
            for k in c.keywords:
                if k.arg not in params or k.arg in b:
                    return None
                b[k.arg] = k.value
            return b if set(b) == set(params) else None
        rec_calls = [c for c in ast.walk(node) if isinstance(c, ast.Call) and is_call(c)]
        if not rec_calls:
            continue
        callers = []
        for q2, n2, o2, c2 in funcs:
            if n2 is node or (is_method and c2 is not cls):
                continue
            cs = [c for c in ast.walk(n2) if isinstance(c, ast.Call) and is_call(c)]
            if cs:
                callers.append((n2, cs))
        other_refs = sum(1 for x in ast.walk(tree) if (isinstance(x, ast.Attribute) and x.attr == node.name) or (isinstance(x, ast.Name) and x.id == node.name)) - len(rec_calls) - sum(len(cs) for _, cs in callers)
        if len(callers) != 1 or other_refs != 0:
            continue
        F, fcalls = callers[0]
        rb = [bind(c) for c in rec_calls]
        fb = [bind(c) for c in fcalls]
        if any(b is None for b in rb + fb):
            continue
        stored = {n.id for n in ast.walk(node) if isinstance(n, ast.Name) and isinstance(n.ctx, (ast.Store, ast.Del))}
        invariant = [p for p in params if p not in stored and all(isinstance(b[p], ast.Name) and b[p].id == p for b in rb)]
        variant = [p for p in params if p not in invariant]
        if not invariant or not variant:
            continue
        # the invariant arguments at F's call sites: the same atomic expression everywhere
        inv_expr = {}
        ok = True
        for p in invariant:
            exprs = {ast.dump(b[p]) for b in fb}
            if len(exprs) != 1 or not _is_atomic(fb[0][p]):
                ok = False
                break
            inv_expr[p] = fb[0][p]
        if not ok:
            continue
        F_names = {n.id for n in ast.walk(F) if isinstance(n, ast.Name)} | set(_params(F))
        if node.name in F_names:
            continue
        # names the helper binds itself must not clash with F's names that the invariant expressions mention
        inv_names = {n.id for e in inv_expr.values() for n in ast.walk(e) if isinstance(n, ast.Name)}
        own = {n.id for n in ast.walk(node) if isinstance(n, ast.Name) and isinstance(n.ctx, ast.Store)} | set(variant)
        if own & inv_names:
            continue

        class Rw(ast.NodeTransformer):
            def visit_Call(self, c):
                self.generic_visit(c)
                if is_call(c):
                    b = bind(c)
                    if b is not None:
                        return ast.copy_location(ast.Call(func=ast.Name(id=node.name, ctx=ast.Load()), args=[b[p] for p in variant], keywords=[]), c)
                return c

            def visit_Name(self, n):
                if n.id in inv_expr and isinstance(n.ctx, ast.Load):
                    return ast.copy_location(copy.deepcopy(inv_expr[n.id]), n)
                return n
        new_body = [Rw().visit(copy.deepcopy(st)) for st in node.body]
        nested = ast.FunctionDef(name=node.name, args=ast.arguments(posonlyargs=[], args=[ast.arg(arg=p, annotation=None) for p in variant], vararg=None, kwonlyargs=[], kw_defaults=[], kwarg=None, defaults=[]),
                                 body=new_body, decorator_list=[], returns=None, type_comment=None)
        if hasattr(ast, "TypeAlias"):
            nested.type_params = []

        class RwF(ast.NodeTransformer):
            def visit_Call(self, c):
                self.generic_visit(c)
                if is_call(c):
                    b = bind(c)
                    if b is not None:
                        return ast.copy_location(ast.Call(func=ast.Name(id=node.name, ctx=ast.Load()), args=[b[p] for p in variant], keywords=[]), c)
                return c
        # place the closure in F's top-level body, right before the first statement that contains a call
        idx = None
        for i, st in enumerate(F.body):
            if any(isinstance(c, ast.Call) and is_call(c) for c in ast.walk(st)):
                idx = i
                break
        if idx is None:
            continue
        # every invariant expression must already be bound at that point: all names assigned before idx or parameters of F
        bound_before = set(_params(F)) | {n.id for st in F.body[:idx] for n in ast.walk(st) if isinstance(n, ast.Name) and isinstance(n.ctx, ast.Store)}
        if not inv_names <= bound_before | {"self"}:
            continue
        F.body = [RwF().visit(st) for st in F.body]
        ast.copy_location(nested, F.body[idx])
        F.body.insert(idx, nested)
        ast.fix_missing_locations(F)
        owner.remove(node)
        done.append(f"{q} -> closure of {F.name}")
    return done


def inline_new_helpers(relpath: str, tree: ast.Module) -> Dict[str, List[str]]:
    pin = pinned()
    known = set(pin["functions"].get(relpath, []))
    stats: Dict[str, List[str]] = {"renamed_back": [], "inlined": [], "kept": [], "renested": []}
    if not known:
        return stats
    stats["renamed_back"] = rename_back(relpath, tree)
    stats["renested"] = renest_recursive_helpers(relpath, tree, known)
    for _ in range(MAX_ROUNDS):
        funcs = _outer_functions(tree)
        helpers = [_Helper(q, node, owner, cls) for q, node, owner, cls in funcs if q not in known and not node.name.startswith("__")]
        helpers = [h for h in helpers if h.eligible() is None]
        if not helpers:
            break
        progress = 0
        # innermost first: helpers that call no other new helper
        for h in helpers:
            n = 0
            for q, node, owner, cls in funcs:
                if node is h.node:
                    continue
                if h.is_method and cls is not h.cls:
                    continue
                n += _inline_into(h, node)
            if n:
                progress += n
                stats["inlined"].append(f"{h.qual} x{n}")
            if _refs(tree, h, h.node) == 0 and n and h.name.startswith("_"):
                h.owner_body.remove(h.node)  # public helpers may be imported elsewhere: their definition stays
            elif n == 0:
                stats["kept"].append(h.qual)
        if not progress:
            break
    ast.fix_missing_locations(tree)
    return stats
