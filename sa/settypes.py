"""Which expressions are unordered collections?  Annotation- and constructor-driven
kind inference (the repository is annotated throughout), iterated to a fixpoint per
function scope.  Kinds: 'set', 'fsorder' (directory listing order), 'dict_of_set'."""
from __future__ import annotations

import ast
from typing import Dict, Optional, Set

from .model import ClassInfo, FuncInfo, Module, Repo, dotted, norm

SET_METHODS = {"union", "difference", "intersection", "symmetric_difference", "copy"}
FS_CALLS = {"glob", "rglob", "iterdir"}
FS_FUNCS = {"os.listdir", "os.scandir", "os.walk", "glob.glob", "glob.iglob"}


def ann_kind(a: Optional[ast.expr]) -> Optional[str]:
    if a is None:
        return None
    t = norm(a)
    t = t.replace("typing.", "")
    if t.startswith("Optional["):
        return ann_kind(a.slice) if isinstance(a, ast.Subscript) else None
    head = t.split("[")[0]
    if head in ("Set", "set", "FrozenSet", "frozenset", "AbstractSet", "MutableSet"):
        return "set"
    if head in ("Dict", "dict", "DefaultDict", "defaultdict", "Mapping") and isinstance(a, ast.Subscript) and isinstance(a.slice, ast.Tuple) and len(a.slice.elts) == 2:
        if ann_kind(a.slice.elts[1]) == "set":
            return "dict_of_set"
    return None


class SetKinds:
    def __init__(self, repo: Repo):
        self.repo = repo
        self._self_attr: Dict[str, Dict[str, str]] = {}
        self._ret: Dict[str, Optional[str]] = {}

    # ------------------------------------------------------------ class attrs
    def self_attrs(self, ci: ClassInfo) -> Dict[str, str]:
        if ci.key in self._self_attr:
            return self._self_attr[ci.key]
        out: Dict[str, str] = {}
        self._self_attr[ci.key] = out
        for c in self.repo.mro(ci):
            for m in c.methods.values():
                for n in ast.walk(m.node):
                    tgt = val = ann = None
                    if isinstance(n, ast.AnnAssign):
                        tgt, val, ann = n.target, n.value, n.annotation
                    elif isinstance(n, ast.Assign) and len(n.targets) == 1:
                        tgt, val = n.targets[0], n.value
                    if isinstance(tgt, ast.Attribute) and isinstance(tgt.value, ast.Name) and tgt.value.id == "self":
                        k = ann_kind(ann) or (self.expr_kind(val, m, {}) if val is not None else None)
                        if k:
                            out.setdefault(tgt.attr, k)
        return out

    def return_kind(self, fi: FuncInfo) -> Optional[str]:
        if fi.key in self._ret:
            return self._ret[fi.key]
        self._ret[fi.key] = None
        k = ann_kind(fi.node.returns)
        if k is None and fi.node.returns is None:
            # unannotated: any return of a set expression
            env = self.local_kinds(fi)
            for n in ast.walk(fi.node):
                if isinstance(n, ast.Return) and n.value is not None and self.expr_kind(n.value, fi, env) == "set":
                    k = "set"
        if k is None and fi.node.returns is not None and norm(fi.node.returns).startswith(("Generator", "Iterator", "Iterable")):
            # generator over a directory listing
            env = self.local_kinds(fi)
            for n in ast.walk(fi.node):
                if isinstance(n, (ast.For,)) and self.expr_kind(n.iter, fi, env) == "fsorder":
                    k = "fsorder"
        self._ret[fi.key] = k
        return k

    # ------------------------------------------------------------ local scope
    def local_kinds(self, fi: FuncInfo) -> Dict[str, str]:
        env: Dict[str, str] = {}
        a = fi.node.args
        for p in a.posonlyargs + a.args + a.kwonlyargs:
            k = ann_kind(p.annotation)
            if k:
                env[p.arg] = k
        changed = True
        rounds = 0
        while changed and rounds < 6:
            changed = False
            rounds += 1
            for n in ast.walk(fi.node):
                tgt = val = ann = None
                if isinstance(n, ast.AnnAssign):
                    tgt, val, ann = n.target, n.value, n.annotation
                elif isinstance(n, ast.Assign) and len(n.targets) == 1:
                    tgt, val = n.targets[0], n.value
                elif isinstance(n, ast.AugAssign) and isinstance(n.op, (ast.BitOr, ast.BitAnd, ast.Sub, ast.BitXor)):
                    tgt, val = n.target, n.value
                if isinstance(tgt, ast.Name):
                    k = ann_kind(ann) or (self.expr_kind(val, fi, env) if val is not None else None)
                    if k and env.get(tgt.id) != k and tgt.id not in env:
                        env[tgt.id] = k
                        changed = True
                # a, b = f(...) with f annotated -> Tuple[A, B]
                if isinstance(n, ast.Assign) and len(n.targets) == 1 and isinstance(n.targets[0], (ast.Tuple, ast.List)) and isinstance(n.value, ast.Call):
                    ra = self._return_annotation(n.value, fi)
                    if isinstance(ra, ast.Subscript) and norm(ra.value) in ("Tuple", "tuple") and isinstance(ra.slice, ast.Tuple) \
                            and len(ra.slice.elts) == len(n.targets[0].elts):
                        for t, a_ in zip(n.targets[0].elts, ra.slice.elts):
                            k = ann_kind(a_)
                            if k and isinstance(t, ast.Name) and t.id not in env:
                                env[t.id] = k
                                changed = True
                # for k, v in <dict_of_set>.items(): v is a set ; for v in <dict_of_set>.values()
                its = []
                if isinstance(n, (ast.For, ast.AsyncFor)):
                    its.append((n.target, n.iter))
                elif isinstance(n, (ast.ListComp, ast.SetComp, ast.DictComp, ast.GeneratorExp)):
                    its += [(g.target, g.iter) for g in n.generators]
                for t, it in its:
                    if isinstance(it, ast.Call) and isinstance(it.func, ast.Attribute) and self.expr_kind(it.func.value, fi, env) == "dict_of_set":
                        v = None
                        if it.func.attr == "items" and isinstance(t, ast.Tuple) and len(t.elts) == 2:
                            v = t.elts[1]
                        elif it.func.attr == "values":
                            v = t
                        if isinstance(v, ast.Name) and v.id not in env:
                            env[v.id] = "set"
                            changed = True
        # enclosing function scopes (closures): parameters / locals of the outer function
        if "." in fi.qualname:
            outer_q = fi.qualname.rsplit(".", 1)[0]
            outer = fi.module.functions.get(outer_q)
            if outer is not None and outer is not fi:
                for k, v in self.local_kinds(outer).items():
                    env.setdefault(k, v)
        return env

    def _return_annotation(self, call: ast.Call, fi: FuncInfo) -> Optional[ast.expr]:
        f = call.func
        if isinstance(f, ast.Attribute) and isinstance(f.value, ast.Name) and f.value.id == "self" and fi.cls is not None:
            m = self.repo.find_method(fi.cls, f.attr)
            return m.node.returns if m is not None else None
        if isinstance(f, ast.Name):
            k, v = self.repo.resolve(fi.module, f.id)
            if k == "func":
                return v.node.returns
        if isinstance(f, ast.Attribute):
            cands = [m for c in self.repo.all_classes() for n, m in c.methods.items() if n == f.attr]
            anns = {norm(m.node.returns) if m.node.returns is not None else None for m in cands}
            if cands and len(anns) == 1:
                return cands[0].node.returns
        return None

    def expr_kind(self, e: Optional[ast.expr], fi: FuncInfo, env: Dict[str, str]) -> Optional[str]:
        if e is None:
            return None
        if isinstance(e, (ast.Set, ast.SetComp)):
            return "set"
        if isinstance(e, ast.Name):
            return env.get(e.id)
        if isinstance(e, ast.Attribute):
            if isinstance(e.value, ast.Name) and e.value.id == "self" and fi.cls is not None:
                return self.self_attrs(fi.cls).get(e.attr)
            return None
        if isinstance(e, ast.Subscript):
            if self.expr_kind(e.value, fi, env) == "dict_of_set":
                return "set"
            return None
        if isinstance(e, ast.BinOp) and isinstance(e.op, (ast.BitOr, ast.BitAnd, ast.Sub, ast.BitXor)):
            if self.expr_kind(e.left, fi, env) == "set" or self.expr_kind(e.right, fi, env) == "set":
                return "set"
            return None
        if isinstance(e, ast.IfExp):
            return self.expr_kind(e.body, fi, env) or self.expr_kind(e.orelse, fi, env)
        if isinstance(e, ast.BoolOp):
            for v in e.values:
                k = self.expr_kind(v, fi, env)
                if k:
                    return k
            return None
        if isinstance(e, ast.Call):
            f = e.func
            d = dotted(f)
            if isinstance(f, ast.Name) and f.id in ("set", "frozenset"):
                return "set"
            if d in FS_FUNCS:
                return "fsorder"
            if isinstance(f, ast.Attribute):
                if f.attr in FS_CALLS:
                    return "fsorder"
                bk = self.expr_kind(f.value, fi, env)
                if f.attr in SET_METHODS and bk == "set":
                    return "set"
                if f.attr in ("get", "pop", "setdefault") and bk == "dict_of_set":
                    return "set"
                if f.attr == "values" and bk == "dict_of_set":
                    return None
                # method of a repo class
                if isinstance(f.value, ast.Name) and f.value.id == "self" and fi.cls is not None:
                    m = self.repo.find_method(fi.cls, f.attr)
                    if m is not None:
                        return self.return_kind(m)
                # obj.method(): resolve by unique method name with a Set return annotation
                cands = [m for c in self.repo.all_classes() for n, m in c.methods.items() if n == f.attr]
                kinds = {self.return_kind(m) for m in cands}
                if cands and len(kinds) == 1:
                    return kinds.pop()
                return None
            if isinstance(f, ast.Name):
                k, v = self.repo.resolve(fi.module, f.id)
                if k == "func":
                    return self.return_kind(v)
                if f.id == "cast" and len(e.args) == 2:
                    return ann_kind(e.args[0]) or self.expr_kind(e.args[1], fi, env)
            return None
        return None
