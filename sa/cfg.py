"""Statement-level control-flow graph for one function, with dominators and the
path queries the rules need.  Hand-built for the statement kinds the repository
uses; an unknown compound statement raises AnalysisError (never guessed)."""
from __future__ import annotations

import ast
from typing import Callable, Dict, Iterable, List, Optional, Set, Tuple

from .model import AnalysisError, norm


class N:
    __slots__ = ("id", "kind", "ast", "label")

    def __init__(self, id_: int, kind: str, node: Optional[ast.AST], label: str = ""):
        self.id = id_
        self.kind = kind  # entry | exit | raise | stmt | test | loop | with | handler | return
        self.ast = node
        self.label = label

    @property
    def lineno(self) -> int:
        return getattr(self.ast, "lineno", 0)

    def __repr__(self):
        t = norm(self.ast)[:60] if self.ast is not None else ""
        return f"<{self.id}:{self.kind}:{self.lineno}:{t}>"


class CFG:
    def __init__(self, fn: ast.AST):
        self.fn = fn
        self.nodes: List[N] = []
        self.succ: Dict[int, List[Tuple[int, str]]] = {}
        self.entry = self._new("entry", None)
        self.exit = self._new("exit", None)  # normal exit (return / fall off)
        self.raise_exit = self._new("raise", None)  # uncaught raise
        self._loops: List[Tuple[N, N]] = []  # (continue target, break target)
        self._handlers: List[List[N]] = []  # enclosing try handler entry nodes
        self._finally: List[List[ast.stmt]] = []
        ends = self._block(fn.body, [(self.entry, "next")])
        for n, lab in ends:
            self._edge(n, self.exit, lab)
        self._pred: Optional[Dict[int, List[int]]] = None

    # ------------------------------------------------------------ building
    def _new(self, kind: str, node, label: str = "") -> N:
        n = N(len(self.nodes), kind, node, label)
        self.nodes.append(n)
        self.succ[n.id] = []
        return n

    def _edge(self, a: N, b: N, label: str = "next") -> None:
        if (b.id, label) not in self.succ[a.id]:
            self.succ[a.id].append((b.id, label))

    def _connect(self, frm: List[Tuple[N, str]], to: N) -> None:
        for n, lab in frm:
            self._edge(n, to, lab)

    def _exc_edges(self, n: N) -> None:
        """a statement inside a try body may raise into every enclosing handler"""
        if self._handlers:
            for h in self._handlers[-1]:
                self._edge(n, h, "exc")

    def _block(self, body: List[ast.stmt], frm: List[Tuple[N, str]]) -> List[Tuple[N, str]]:
        cur = frm
        for st in body:
            if not cur:
                break  # unreachable code
            cur = self._stmt(st, cur)
        return cur

    def _stmt(self, st: ast.stmt, frm: List[Tuple[N, str]]) -> List[Tuple[N, str]]:
        if isinstance(st, ast.If):
            t = self._new("test", st.test)
            t.label = "if"
            self._connect(frm, t)
            self._exc_edges(t)
            a = self._block(st.body, [(t, "true")])
            b = self._block(st.orelse, [(t, "false")]) if st.orelse else [(t, "false")]
            return a + b
        if isinstance(st, (ast.For, ast.AsyncFor)):
            h = self._new("loop", st)
            self._connect(frm, h)
            self._exc_edges(h)
            after = self._new("stmt", None, "loop-exit")
            self._loops.append((h, after))
            ends = self._block(st.body, [(h, "iter")])
            self._loops.pop()
            self._connect(ends, h)
            orelse = self._block(st.orelse, [(h, "done")]) if st.orelse else [(h, "done")]
            self._connect(orelse, after)
            return [(after, "next")]
        if isinstance(st, ast.While):
            h = self._new("test", st.test)
            h.label = "while"
            self._connect(frm, h)
            self._exc_edges(h)
            after = self._new("stmt", None, "loop-exit")
            self._loops.append((h, after))
            ends = self._block(st.body, [(h, "true")])
            self._loops.pop()
            self._connect(ends, h)
            const_true = isinstance(st.test, ast.Constant) and bool(st.test.value)
            if not const_true:
                orelse = self._block(st.orelse, [(h, "false")]) if st.orelse else [(h, "false")]
                self._connect(orelse, after)
            return [(after, "next")]
        if isinstance(st, (ast.With, ast.AsyncWith)):
            w = self._new("with", st)
            self._connect(frm, w)
            self._exc_edges(w)
            return self._block(st.body, [(w, "next")])
        if isinstance(st, ast.Try) or st.__class__.__name__ == "TryStar":
            hnodes = [self._new("handler", h) for h in st.handlers]
            # finally without handlers: model the finally body as an extra handler-like path
            self._handlers.append(hnodes + (self._handlers[-1] if self._handlers and not _catches_all(st) else []))
            body_ends = self._block(st.body, frm)
            self._handlers.pop()
            else_ends = self._block(st.orelse, body_ends) if st.orelse else body_ends
            hends: List[Tuple[N, str]] = []
            for hn, h in zip(hnodes, st.handlers):
                hends += self._block(h.body, [(hn, "next")])
            ends = else_ends + hends
            if st.finalbody:
                ends = self._block(st.finalbody, ends)
            return ends
        if isinstance(st, ast.Return):
            r = self._new("return", st)
            self._connect(frm, r)
            self._exc_edges(r)
            self._edge(r, self.exit, "return")
            return []
        if isinstance(st, ast.Raise):
            r = self._new("stmt", st, "raise")
            self._connect(frm, r)
            if self._handlers:
                for h in self._handlers[-1]:
                    self._edge(r, h, "exc")
                if not self._handlers_catch_all():
                    self._edge(r, self.raise_exit, "raise")
            else:
                self._edge(r, self.raise_exit, "raise")
            return []
        if isinstance(st, ast.Break):
            b = self._new("stmt", st)
            self._connect(frm, b)
            self._edge(b, self._loops[-1][1], "break")
            return []
        if isinstance(st, ast.Continue):
            c = self._new("stmt", st)
            self._connect(frm, c)
            self._edge(c, self._loops[-1][0], "continue")
            return []
        if isinstance(st, (ast.FunctionDef, ast.AsyncFunctionDef, ast.ClassDef)):
            n = self._new("stmt", st, "def")
            self._connect(frm, n)
            return [(n, "next")]
        if isinstance(st, ast.Match):
            t = self._new("test", st.subject)
            t.label = "match"
            self._connect(frm, t)
            ends: List[Tuple[N, str]] = []
            for i, case in enumerate(st.cases):
                ends += self._block(case.body, [(t, f"case{i}")])
            ends.append((t, "nomatch"))
            return ends
        if isinstance(st, (ast.Assign, ast.AnnAssign, ast.AugAssign, ast.Expr, ast.Pass, ast.Assert,
                           ast.Delete, ast.Import, ast.ImportFrom, ast.Global, ast.Nonlocal)):
            n = self._new("stmt", st)
            self._connect(frm, n)
            self._exc_edges(n)
            return [(n, "next")]
        raise AnalysisError(f"cfg: unsupported statement {type(st).__name__}")

    def _handlers_catch_all(self) -> bool:
        for h in self._handlers[-1]:
            if isinstance(h.ast, ast.ExceptHandler) and (h.ast.type is None or norm(h.ast.type) in ("Exception", "BaseException")):
                return True
        return False

    # ------------------------------------------------------------- queries
    def node_of(self, a: ast.AST) -> Optional[N]:
        """CFG node whose statement/test contains the ast node `a`"""
        best = None
        for n in self.nodes:
            if n.ast is None:
                continue
            target = n.ast
            if n.kind in ("loop",):
                parts = [n.ast.target, n.ast.iter]
            elif n.kind == "with":
                parts = [i for it in n.ast.items for i in (it.context_expr, it.optional_vars) if i is not None]
            elif n.kind == "handler":
                parts = [n.ast.type] if n.ast.type is not None else []
                if n.ast is a:
                    return n
            elif n.label == "def":
                parts = [n.ast] if n.ast is a else []
            else:
                parts = [target]
            for p in parts:
                for sub in ast.walk(p):
                    if sub is a:
                        best = n
                        break
                if best:
                    break
            if best:
                break
        return best

    def nodes_where(self, pred: Callable[[N], bool]) -> List[N]:
        return [n for n in self.nodes if pred(n)]

    def stmts(self) -> List[N]:
        return [n for n in self.nodes if n.ast is not None]

    def reach(self, starts: Iterable[N], avoid: Optional[Set[int]] = None,
              edge_ok: Optional[Callable[[N, N, str], bool]] = None) -> Set[int]:
        avoid = avoid or set()
        seen: Set[int] = set()
        stack = [s.id for s in starts if s.id not in avoid]
        while stack:
            i = stack.pop()
            if i in seen:
                continue
            seen.add(i)
            for j, lab in self.succ[i]:
                if j in avoid or j in seen:
                    continue
                if edge_ok is not None and not edge_ok(self.nodes[i], self.nodes[j], lab):
                    continue
                stack.append(j)
        return seen

    def reach_after(self, start: N, avoid: Optional[Set[int]] = None) -> Set[int]:
        """nodes reachable from the successors of start (start itself only if on a cycle)"""
        avoid = avoid or set()
        succs = [self.nodes[j] for j, _ in self.succ[start.id] if j not in avoid]
        return self.reach(succs, avoid)

    def must_pass(self, start: N, targets: Iterable[N], through: Callable[[N], bool]) -> Optional[List[N]]:
        """None if every path start ->* target meets a node satisfying `through`
        (start and target themselves excluded); otherwise one offending path."""
        tids = {t.id for t in targets}
        avoid = {n.id for n in self.nodes if through(n) and n.id != start.id and n.id not in tids}
        # BFS with parents for a witness path
        parent: Dict[int, Optional[int]] = {start.id: None}
        queue = [start.id]
        while queue:
            i = queue.pop(0)
            for j, _ in self.succ[i]:
                if j in avoid or j in parent:
                    continue
                parent[j] = i
                if j in tids:
                    path = [j]
                    while parent[path[-1]] is not None:
                        path.append(parent[path[-1]])
                    return [self.nodes[k] for k in reversed(path)]
                queue.append(j)
        return None

    def pred(self) -> Dict[int, List[int]]:
        if self._pred is None:
            p: Dict[int, List[int]] = {n.id: [] for n in self.nodes}
            for i, outs in self.succ.items():
                for j, _ in outs:
                    p[j].append(i)
            self._pred = p
        return self._pred

    def dominators(self) -> Dict[int, Set[int]]:
        reachable = self.reach([self.entry])
        allr = set(reachable)
        dom = {i: set(allr) for i in reachable}
        dom[self.entry.id] = {self.entry.id}
        pred = self.pred()
        changed = True
        order = sorted(reachable)
        while changed:
            changed = False
            for i in order:
                if i == self.entry.id:
                    continue
                ps = [p for p in pred[i] if p in reachable]
                new = set.intersection(*(dom[p] for p in ps)) if ps else set()
                new = new | {i}
                if new != dom[i]:
                    dom[i] = new
                    changed = True
        return dom

    def dominates(self, a: N, b: N) -> bool:
        """every path entry ->* b passes a"""
        if a.id == b.id:
            return True
        r = self.reach([self.entry], avoid={a.id})
        return b.id not in r

    def path_str(self, path: List[N]) -> str:
        return " -> ".join(f"L{n.lineno}:{n.kind}" if n.ast is not None else n.kind for n in path)

    def edge_label(self, a: N, b: N) -> Optional[str]:
        for j, lab in self.succ[a.id]:
            if j == b.id:
                return lab
        return None


def _catches_all(st) -> bool:
    for h in st.handlers:
        if h.type is None or norm(h.type) in ("Exception", "BaseException"):
            return True
    return False


def build(fn: ast.AST) -> CFG:
    return CFG(fn)
