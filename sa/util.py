"""small matchers shared by the rules"""
from __future__ import annotations

import ast
import importlib.util
import os
from functools import lru_cache
from typing import Dict, Iterable, List, Optional, Set, Tuple

from .cfg import CFG, build
from .model import AnalysisError, FuncInfo, Repo, dotted, norm, walk_no_nested

_cfg_cache: Dict[int, CFG] = {}


def cfg_of(fi: FuncInfo) -> CFG:
    k = id(fi.node)
    if k not in _cfg_cache:
        _cfg_cache[k] = build(fi.node)
    return _cfg_cache[k]


def is_name(e: Optional[ast.AST], name: str) -> bool:
    return isinstance(e, ast.Name) and e.id == name


def is_const(e: Optional[ast.AST], value=...) -> bool:
    return isinstance(e, ast.Constant) and (value is ... or (e.value == value and type(e.value) is type(value)))


def is_attr(e: Optional[ast.AST], base: str, attr: str) -> bool:
    return isinstance(e, ast.Attribute) and e.attr == attr and dotted(e.value) == base


def names_in(e: ast.AST) -> Set[str]:
    return {n.id for n in ast.walk(e) if isinstance(n, ast.Name)}


def calls_named(node: ast.AST, *suffixes: str, nested: bool = False) -> List[ast.Call]:
    """calls whose dotted callee name equals or ends with '.'+suffix"""
    out = []
    it = ast.walk(node) if nested else walk_no_nested(node)
    for n in it:
        if isinstance(n, ast.Call):
            d = dotted(n.func)
            for s in suffixes:
                if d == s or d.endswith("." + s):
                    out.append(n)
                    break
    out.sort(key=lambda c: (getattr(c, "lineno", 0), getattr(c, "col_offset", 0)))
    return out


def kw(c: ast.Call, name: str) -> Optional[ast.expr]:
    for k in c.keywords:
        if k.arg == name:
            return k.value
    return None


def dict_items(d: ast.Dict) -> Dict[object, ast.expr]:
    out = {}
    for k, v in zip(d.keys, d.values):
        if isinstance(k, ast.Constant):
            out[k.value] = v
        elif k is None:
            out.setdefault("**", []).append(v)
        else:
            out[norm(k)] = v
    return out


def strip_pre(e: ast.AST) -> ast.AST:
    """remove absint <pre>(expr, name, k) wrappers"""
    class T(ast.NodeTransformer):
        def visit_Call(self, node):
            self.generic_visit(node)
            if isinstance(node.func, ast.Name) and node.func.id == "<pre>":
                return node.args[0]
            return node
    import copy
    return T().visit(copy.deepcopy(e))


def site_packages_source(pkg: str, *rel: str) -> Tuple[str, str]:
    """(path, source) of an installed library file, located without importing it"""
    spec = importlib.util.find_spec(pkg)
    if spec is None:
        raise AnalysisError(f"oracle: package {pkg} not installed")
    if spec.submodule_search_locations:
        base = list(spec.submodule_search_locations)[0]
    else:
        base = os.path.dirname(spec.origin)
        if not rel:
            with open(spec.origin, encoding="utf-8") as f:
                return spec.origin, f.read()
    path = os.path.join(base, *rel)
    if not os.path.exists(path):
        raise AnalysisError(f"oracle: {path} not found")
    with open(path, encoding="utf-8") as f:
        return path, f.read()


def stdlib_source(module: str) -> Tuple[str, str]:
    spec = importlib.util.find_spec(module.split(".")[0])
    if spec is None or not spec.origin:
        raise AnalysisError(f"oracle: stdlib module {module} not found")
    if spec.submodule_search_locations:
        base = list(spec.submodule_search_locations)[0]
        path = os.path.join(base, *module.split(".")[1:]) + ".py"
    else:
        path = spec.origin
    with open(path, encoding="utf-8") as f:
        return path, f.read()


@lru_cache(maxsize=None)
def pkg_version(pkg: str) -> str:
    try:
        from importlib import metadata
        return metadata.version(pkg)
    except Exception:
        return "unknown"


def func_params(fn: ast.AST) -> List[str]:
    a = fn.args
    return [x.arg for x in a.posonlyargs + a.args + a.kwonlyargs]


def key(fi: FuncInfo, construct: str) -> str:
    return f"{fi.module.short}::{fi.qualname}::{construct}"


# --------------------------------------------------------------------------- name-agnostic matching
import re as _re

_HOLE = _re.compile(r"(«[A-Za-z_][A-Za-z0-9_]*»)")
_IDENT = r"[A-Za-z_][A-Za-z0-9_]*"


def pmatch(pattern: str, text: str, b: Optional[dict] = None) -> Optional[dict]:
    """match `text` against `pattern` whose holes «X» stand for identifiers (local variable
    names of the analysed code); the same hole must bind the same identifier everywhere.
    Returns the extended bindings or None.  «_» is an anonymous identifier."""
    b = dict(b or {})
    rx = ""
    seen = set()
    for part in _HOLE.split(pattern):
        if _HOLE.fullmatch(part):
            n = part[1:-1]
            if n == "_":
                rx += _IDENT
            elif n in b:
                rx += _re.escape(b[n])
            elif n in seen:
                rx += f"(?P={n})"
            else:
                rx += f"(?P<{n}>{_IDENT})"
                seen.add(n)
        else:
            rx += _re.escape(part)
    m = _re.fullmatch(rx, text)
    if not m:
        return None
    b.update(m.groupdict())
    return b


def pfind(pattern: str, texts, b: Optional[dict] = None):
    """first text matching the pattern -> (text, bindings) or (None, None)"""
    for t in texts:
        r = pmatch(pattern, t, b)
        if r is not None:
            return t, r
    return None, None


def pin(pattern: str, text: str, b: Optional[dict] = None) -> Optional[dict]:
    """pattern occurs somewhere inside text (holes as in pmatch)"""
    b = dict(b or {})
    rx = ""
    seen = set()
    for part in _HOLE.split(pattern):
        if _HOLE.fullmatch(part):
            n = part[1:-1]
            if n == "_":
                rx += _IDENT
            elif n in b:
                rx += _re.escape(b[n])
            elif n in seen:
                rx += f"(?P={n})"
            else:
                rx += f"(?P<{n}>{_IDENT})"
                seen.add(n)
        else:
            rx += _re.escape(part)
    m = _re.search(r"(?<![A-Za-z0-9_])" + rx if rx[:1] != "\\" and pattern[:1] == "«" else rx, text)
    if not m:
        return None
    b.update(m.groupdict())
    return b


def local_env(fn: ast.AST) -> Dict[str, ast.AST]:
    """single-assignment locals of a function: name -> value expression (first binding)"""
    out: Dict[str, ast.AST] = {}
    for st in walk_no_nested(fn):
        if isinstance(st, ast.Assign) and len(st.targets) == 1 and isinstance(st.targets[0], ast.Name):
            out.setdefault(st.targets[0].id, st.value)
        elif isinstance(st, ast.AnnAssign) and isinstance(st.target, ast.Name) and st.value is not None:
            out.setdefault(st.target.id, st.value)
    return out


def inline_locals(e: ast.AST, env: Dict[str, ast.AST], depth: int = 3) -> ast.AST:
    """replace local names by their (single) defining expressions: makes a text independent of local names"""
    import copy

    class T(ast.NodeTransformer):
        def __init__(self, d):
            self.d = d

        def visit_Name(self, node):
            if isinstance(node.ctx, ast.Load) and node.id in env and self.d > 0:
                return T(self.d - 1).visit(copy.deepcopy(env[node.id]))
            return node
    return T(depth).visit(copy.deepcopy(e))


# --------------------------------------------------------------------------- set / string algebra on symbolic values
def union_terms(e: ast.AST) -> List[str]:
    """operands of a chain of set unions `a | b | {x}` (after the loader's canonical forms: .union(), .update(), .add()
    are all written this way), as sorted canonical texts; a set display contributes each element as `{elem}`"""
    out: List[str] = []

    def rec(x):
        if isinstance(x, ast.BinOp) and isinstance(x.op, ast.BitOr):
            rec(x.left)
            rec(x.right)
        elif isinstance(x, ast.Set):
            for el in x.elts:
                out.append("{" + norm(el) + "}")
        elif isinstance(x, ast.Call) and isinstance(x.func, ast.Name) and x.func.id == "set" and not x.args:
            pass  # the empty set
        else:
            out.append(norm(x))
    rec(strip_pre(e))
    return sorted(out)


def concat_parts(e: ast.AST) -> List[str]:
    """pieces of a string concatenation / f-string as canonical texts (literal pieces quoted)"""
    out: List[str] = []

    def rec(x):
        if isinstance(x, ast.BinOp) and isinstance(x.op, ast.Add):
            rec(x.left)
            rec(x.right)
        elif isinstance(x, ast.JoinedStr):
            for v in x.values:
                if isinstance(v, ast.Constant):
                    out.append(repr(v.value))
                elif isinstance(v, ast.FormattedValue) and v.conversion == -1 and v.format_spec is None:
                    rec(v.value)
                else:
                    out.append(norm(v))
        elif isinstance(x, ast.Constant) and isinstance(x.value, str):
            out.append(repr(x.value))
        else:
            out.append(norm(x))
    rec(strip_pre(e))
    merged: List[str] = []
    for p in out:
        if merged and p[:1] in "'\"" and merged[-1][:1] in "'\"":
            merged[-1] = repr(ast.literal_eval(merged[-1]) + ast.literal_eval(p))
        else:
            merged.append(p)
    return merged


def set_marks(node: ast.AST) -> List[Tuple[str, ast.AST]]:
    """places where something is added to a set: `S.add(x)` / `S.update(xs)` or, in the loader's canonical form for local
    sets, `S = S | {x}` / `S = S | xs`.  -> (text of S, node)"""
    out = []
    for x in ast.walk(node):
        if isinstance(x, ast.Call) and isinstance(x.func, ast.Attribute) and x.func.attr in ("add", "update") and len(x.args) == 1:
            out.append((norm(x.func.value), x))
        elif isinstance(x, ast.Assign) and len(x.targets) == 1 and isinstance(x.targets[0], ast.Name) and isinstance(x.value, ast.BinOp) and isinstance(x.value.op, ast.BitOr) \
                and isinstance(x.value.left, ast.Name) and x.value.left.id == x.targets[0].id:
            out.append((x.targets[0].id, x))
    return out


def argv(c: ast.Call, i: int, name: str) -> Optional[ast.expr]:
    """the argument bound to the i-th parameter `name` of a call, whether it was passed positionally or by keyword
    (the loader rewrites calls of repository functions to keyword form)"""
    v = kw(c, name)
    if v is not None:
        return v
    if i < len(c.args) and not any(isinstance(a, ast.Starred) for a in c.args[: i + 1]):
        return c.args[i]
    return None


def allargs(c: ast.Call) -> List[ast.expr]:
    """argument values in signature order: the loader rewrites calls of repository functions to keyword form (keywords
    sorted by parameter position), library calls keep their positional arguments"""
    return list(c.args) + [k.value for k in c.keywords if k.arg is not None]


def comp_struct(e: ast.AST) -> Optional[Tuple[str, List[Tuple[str, List[str]]]]]:
    """name-independent description of a comprehension: (element, [(iterable, [conditions]), ...]) where the loop variables
    are written $0, $1, ... in binding order (tuple targets: $0_0, $0_1).  None when `e` is not a comprehension."""
    import copy as _copy
    if not isinstance(e, (ast.ListComp, ast.SetComp, ast.GeneratorExp, ast.DictComp)):
        return None
    ren: Dict[str, str] = {}
    gens = []

    class R(ast.NodeTransformer):
        def visit_Name(self, n):
            return ast.copy_location(ast.Name(id=ren[n.id], ctx=n.ctx), n) if n.id in ren else n

    def txt(x):
        from .canon import NormText
        return NormText(norm(R().visit(_copy.deepcopy(x))).replace("_DOLLAR_", "$"))
    for i, g in enumerate(e.generators):
        it = txt(g.iter)
        if isinstance(g.target, ast.Name):
            ren[g.target.id] = f"_DOLLAR_{i}"
        elif isinstance(g.target, (ast.Tuple, ast.List)):
            for j, t in enumerate(g.target.elts):
                if isinstance(t, ast.Name):
                    ren[t.id] = f"_DOLLAR_{i}_{j}"
                elif isinstance(t, (ast.Tuple, ast.List)):
                    for k_, t2 in enumerate(t.elts):
                        if isinstance(t2, ast.Name):
                            ren[t2.id] = f"_DOLLAR_{i}_{j}_{k_}"
        gens.append((it, [txt(c) for c in g.ifs]))
    from .canon import NormText
    el = NormText(txt(e.key) + ": " + txt(e.value)) if isinstance(e, ast.DictComp) else txt(e.elt)
    return el, gens


def seq_terms(e: ast.AST) -> List[str]:
    """members of a list built from displays, `+`, list(...) and comprehensions, as canonical texts: a display contributes
    each element; `list(X)` / `[*X]` contribute `each X`; a comprehension `[f(v) for v in X if c]` contributes
    `each f($0) for X if c`.  Order is kept."""
    out: List[str] = []

    def rec(x):
        x = strip_pre(x)
        if isinstance(x, ast.BinOp) and isinstance(x.op, ast.Add):
            rec(x.left)
            rec(x.right)
        elif isinstance(x, (ast.List, ast.Tuple)):
            for el in x.elts:
                if isinstance(el, ast.Starred):
                    rec(ast.Call(func=ast.Name(id="list", ctx=ast.Load()), args=[el.value], keywords=[]))
                else:
                    out.append(norm(el))
        elif isinstance(x, ast.Call) and isinstance(x.func, ast.Name) and x.func.id in ("list", "tuple", "sorted") and len(x.args) == 1 and not x.keywords:
            inner = strip_pre(x.args[0])
            if isinstance(inner, (ast.List, ast.Tuple, ast.ListComp, ast.GeneratorExp, ast.BinOp)):
                rec(inner)
            else:
                out.append("each " + norm(inner))
        elif isinstance(x, (ast.ListComp, ast.GeneratorExp)):
            g0 = x.generators[0]
            it0 = strip_pre(g0.iter)
            if len(x.generators) == 1 and not g0.ifs and isinstance(g0.target, ast.Name) and isinstance(it0, (ast.List, ast.Tuple)) and not any(isinstance(i, ast.Starred) for i in it0.elts):
                # a comprehension over a literal display is that display, element by element
                import copy as _copy
                for item in it0.elts:
                    class _S(ast.NodeTransformer):
                        def visit_Name(self, n, item=item, tgt=g0.target.id):
                            return _copy.deepcopy(item) if n.id == tgt and isinstance(n.ctx, ast.Load) else n
                    out.append(norm(_S().visit(_copy.deepcopy(x.elt))))
                return
            el, gens = comp_struct(x)
            out.append("each " + el + "".join(f" for {it}" + "".join(f" if {c}" for c in cs) for it, cs in gens))
        else:
            out.append("<" + norm(x) + ">")
    rec(e)
    return out


def expand_elem_terms(text: str) -> List[str]:
    """`<elem>(chain(A, B))` stands for an element of A or of B; `<elem>(chain.from_iterable(X))` for an element of an
    element of X; likewise `A + B`, `[*A, *B]`, `list(A)`.  Returns the alternatives (the text itself when nothing applies)."""
    import copy as _copy
    src = str(text).replace("<elem>", "_ELEM_")
    try:
        tree = ast.parse(src, mode="eval").body
    except SyntaxError:
        return [str(text)]

    def alts(arg: ast.AST) -> Optional[List[ast.AST]]:
        if isinstance(arg, ast.Call) and norm(arg.func) in ("chain", "itertools.chain") and arg.args and not arg.keywords:
            return list(arg.args)
        if isinstance(arg, ast.Call) and norm(arg.func) in ("chain.from_iterable", "itertools.chain.from_iterable") and len(arg.args) == 1:
            return [ast.Call(func=ast.Name(id="_ELEM_", ctx=ast.Load()), args=[arg.args[0]], keywords=[])]
        if isinstance(arg, ast.BinOp) and isinstance(arg.op, ast.Add):
            return [arg.left, arg.right]
        if isinstance(arg, (ast.List, ast.Tuple)) and arg.elts and all(isinstance(e, ast.Starred) for e in arg.elts):
            return [e.value for e in arg.elts]
        if isinstance(arg, ast.Call) and isinstance(arg.func, ast.Name) and arg.func.id in ("list", "tuple", "iter") and len(arg.args) == 1 and not arg.keywords:
            return [arg.args[0]]
        return None

    def step(t: ast.AST) -> Optional[List[ast.AST]]:
        for n in ast.walk(t):
            if isinstance(n, ast.Call) and isinstance(n.func, ast.Name) and n.func.id == "_ELEM_" and len(n.args) == 1:
                a = alts(n.args[0])
                if a is not None:
                    out = []
                    for x in a:
                        t2 = _copy.deepcopy(t)
                        for m in ast.walk(t2):
                            if isinstance(m, ast.Call) and isinstance(m.func, ast.Name) and m.func.id == "_ELEM_" and len(m.args) == 1 and ast.dump(m.args[0]) == ast.dump(n.args[0]):
                                m.args[0] = _copy.deepcopy(x)
                                break
                        out.append(t2)
                    return out
        return None
    work, done = [tree], []
    guard = 0
    while work and guard < 64:
        guard += 1
        t = work.pop()
        r = step(t)
        if r is None:
            done.append(t)
        else:
            work.extend(r)
    return sorted({ast.unparse(t).replace("_ELEM_", "<elem>") for t in done + work})


def real_params(fi) -> List[str]:
    """parameter names of a function without the receiver (`self` / `cls`); a method turned into a @staticmethod keeps its index"""
    a = fi.node.args
    ps = [x.arg for x in a.posonlyargs + a.args]
    is_static = any(norm(d) == "staticmethod" for d in fi.node.decorator_list)
    if getattr(fi, "cls", None) is not None and ps and ps[0] in ("self", "cls") and not is_static:
        ps = ps[1:]
    return ps


def loops_as_comps(fn_node: ast.AST, target: str) -> List[ast.ListComp]:
    """`for T in IT: [if C:] <target>.append(E)` loops of a function, rewritten as the comprehension `[E for T in IT if C]`
    (the loader does this for local lists; attributes such as `self.names` are left to the rules)"""
    out: List[ast.ListComp] = []
    for loop in ast.walk(fn_node):
        if not (isinstance(loop, ast.For) and len(loop.body) == 1 and not loop.orelse):
            continue
        st, conds = loop.body[0], []
        while isinstance(st, ast.If) and len(st.body) == 1 and not st.orelse:
            conds.append(st.test)
            st = st.body[0]
        if isinstance(st, ast.Expr) and isinstance(st.value, ast.Call) and isinstance(st.value.func, ast.Attribute) and st.value.func.attr == "append" \
                and norm(st.value.func.value) == target and len(st.value.args) == 1 and not st.value.keywords:
            out.append(ast.ListComp(elt=st.value.args[0], generators=[ast.comprehension(target=loop.target, iter=loop.iter, ifs=conds, is_async=0)]))
    return out
