"""Canonical forms shared by the analysed code and by the text patterns the rules compare it with.

`norm(node)` (model.py) returns a NormText: a str whose comparisons (==, in, startswith, endswith) first bring the
*other* operand into the same canonical form.  The rules were written against the text of the pinned tree; with this
they keep reading naturally ("generate_name(ANY)") while the comparison is made on canonical forms, so that an edit that
only moves between equivalent spellings does not change any verdict:

  named constants    a Name that resolves to a module-level scalar / tuple constant is replaced by its value (in the
                     code: resolved through the imports of the analysed tree; in a pattern: by the value the name has on
                     the pinned tree, sa/pinned.json).  Introducing, renaming or inlining a constant is invisible; changing
                     the value of a constant is visible at every use.
  x if x else y      -> x or y
  keyword arguments  see normalise.py (calls of repository functions are rewritten to keyword form)

A pattern that does not parse as Python (a prefix such as "generate_call(func=") only gets the textual constant folding."""
from __future__ import annotations

import ast
import copy
import json
import os
import re
from functools import lru_cache
from typing import Any, Callable, Dict, List, Optional

PINNED_PATH = os.path.join(os.path.dirname(os.path.abspath(__file__)), "pinned.json")
_pinned: Optional[dict] = None


def pinned() -> dict:
    global _pinned
    if _pinned is None:
        try:
            raw = json.load(open(PINNED_PATH))
        except Exception:
            raw = {"consts": {}, "sigs": {}, "functions": {}}
        raw["consts"] = {k: ast.literal_eval(v) for k, v in raw.get("consts", {}).items()}
        _pinned = raw
    return _pinned


def is_foldable(v: Any) -> bool:
    if isinstance(v, (str, int, float, bool)) or v is None:
        return True
    if isinstance(v, tuple):
        return all(is_foldable(x) for x in v)
    return False


def const_node(v: Any) -> ast.expr:
    if isinstance(v, tuple):
        return ast.Tuple(elts=[const_node(x) for x in v], ctx=ast.Load())
    return ast.Constant(value=v)


def positive_test(t: ast.expr) -> Optional[ast.expr]:
    """the un-negated test when `t` is a negation (`not c`, `a not in b`, `a is not b`, `a != b`), else None"""
    if isinstance(t, ast.UnaryOp) and isinstance(t.op, ast.Not):
        return t.operand
    if isinstance(t, ast.Compare) and len(t.ops) == 1:
        flip = {ast.NotIn: ast.In, ast.IsNot: ast.Is, ast.NotEq: ast.Eq}.get(type(t.ops[0]))
        if flip is not None:
            return ast.copy_location(ast.Compare(left=t.left, ops=[flip()], comparators=t.comparators), t)
    if isinstance(t, ast.BoolOp):
        # `not a or not b` is the negation of `a and b` (the form De Morgan's rule leaves behind)
        pos = [positive_test(v) for v in t.values]
        if all(p is not None for p in pos):
            return ast.copy_location(ast.BoolOp(op=ast.And() if isinstance(t.op, ast.Or) else ast.Or(), values=pos), t)
    return None


_NEG = {ast.Is: ast.IsNot, ast.IsNot: ast.Is, ast.In: ast.NotIn, ast.NotIn: ast.In, ast.Eq: ast.NotEq, ast.NotEq: ast.Eq,
        ast.Lt: ast.GtE, ast.GtE: ast.Lt, ast.Gt: ast.LtE, ast.LtE: ast.Gt}


def negate(t: ast.expr) -> ast.expr:
    """canonical negation of a test: `not x` -> x, single comparisons flip their operator, everything else gets `not`"""
    if isinstance(t, ast.UnaryOp) and isinstance(t.op, ast.Not):
        return t.operand
    if isinstance(t, ast.Compare) and len(t.ops) == 1 and type(t.ops[0]) in _NEG:
        return ast.copy_location(ast.Compare(left=t.left, ops=[_NEG[type(t.ops[0])]()], comparators=t.comparators), t)
    return ast.copy_location(ast.UnaryOp(op=ast.Not(), operand=t), t)


def _is_keys_call(e) -> bool:
    return isinstance(e, ast.Call) and isinstance(e.func, ast.Attribute) and e.func.attr == "keys" and not e.args and not e.keywords


def _concat_parts(e: ast.expr):
    """operands of a + chain when at least one is a string literal / f-string (so the chain is string concatenation)"""
    if isinstance(e, ast.BinOp) and isinstance(e.op, ast.Add):
        l, r = _concat_parts(e.left), _concat_parts(e.right)
        if l is None or r is None:
            return None
        return l + r
    if isinstance(e, ast.Constant):
        return [e] if isinstance(e.value, str) else None
    return [e]


def _boolish(e: ast.expr) -> bool:
    """expressions whose value is always a bool"""
    if isinstance(e, ast.Compare) or (isinstance(e, ast.UnaryOp) and isinstance(e.op, ast.Not)):
        return True
    if isinstance(e, ast.Call) and isinstance(e.func, ast.Name) and e.func.id in ("isinstance", "issubclass", "hasattr", "callable", "any", "all", "bool"):
        return True
    if isinstance(e, ast.BoolOp):
        return all(_boolish(v) for v in e.values)
    return isinstance(e, ast.Constant) and isinstance(e.value, bool)


class ExprCanon(ast.NodeTransformer):
    """expression-level canonical forms; `const(name)` returns (True, value) for a foldable constant"""

    def __init__(self, const: Callable[[str], Optional[tuple]], bound: Optional[set] = None, sigs: Optional[Callable[[str, bool], Optional[List[str]]]] = None):
        self.const = const
        self.bound = bound or set()
        self.sigs = sigs

    def visit_Name(self, node):
        if isinstance(node.ctx, ast.Load) and node.id not in self.bound:
            r = self.const(node.id)
            if r is not None:
                if r[0] is False:  # a defining expression (new module-level name)
                    return ast.copy_location(self.visit(copy.deepcopy(r[1])), node)
                return ast.copy_location(const_node(r[1]), node)
        return node

    def visit_UnaryOp(self, node):
        self.generic_visit(node)
        # `not not p` is `p` when p is already a bool (a comparison, a negation, isinstance(...) and the like)
        if isinstance(node.op, ast.Not) and isinstance(node.operand, ast.UnaryOp) and isinstance(node.operand.op, ast.Not) and _boolish(node.operand.operand):
            return node.operand.operand
        if isinstance(node.op, ast.Not) and isinstance(node.operand, ast.Compare) and len(node.operand.ops) == 1 and type(node.operand.ops[0]) in (ast.Is, ast.IsNot, ast.In, ast.NotIn, ast.Eq, ast.NotEq):
            return negate(node.operand)
        # De Morgan: negations are pushed inwards (`not (a and b)` -> `not a or not b`); evaluation order and short-circuiting are the same
        if isinstance(node.op, ast.Not) and isinstance(node.operand, ast.BoolOp):
            inner = node.operand
            flipped = ast.Or() if isinstance(inner.op, ast.And) else ast.And()
            return ast.copy_location(ast.BoolOp(op=flipped, values=[self.visit(negate(v)) if isinstance(negate(v), ast.UnaryOp) and isinstance(negate(v).operand, ast.BoolOp) else negate(v)
                                                                    for v in inner.values]), node)
        return node

    def visit_IfExp(self, node):
        self.generic_visit(node)
        try:
            pos = positive_test(node.test)
            if pos is not None:  # `a if not c else b` -> `b if c else a`
                node = ast.copy_location(ast.IfExp(test=pos, body=node.orelse, orelse=node.body), node)
            if ast.dump(node.test) == ast.dump(node.body):
                return ast.copy_location(ast.BoolOp(op=ast.Or(), values=[node.body, node.orelse]), node)
        except Exception:
            pass
        return node

    _SETOPS = {"union": ast.BitOr, "difference": ast.Sub, "intersection": ast.BitAnd, "symmetric_difference": ast.BitXor}

    def _keywordise(self, node):
        """positional arguments of a call to a repository function -> keyword arguments, in signature order"""
        f = node.func
        if self.sigs is None or not node.args or any(isinstance(a, ast.Starred) for a in node.args) or any(k.arg is None for k in node.keywords):
            return node
        if isinstance(f, ast.Name):
            name, is_attr = f.id, False
            if name in self.bound:
                return node
        elif isinstance(f, ast.Attribute):
            name, is_attr = f.attr, True
        else:
            return node
        params = self.sigs(name, is_attr)
        if params is None or len(node.args) > len(params):
            return node
        given = {k.arg for k in node.keywords}
        new_kw = []
        for p, a in zip(params, node.args):
            if p in given:
                return node
            new_kw.append(ast.keyword(arg=p, value=a))
        order = {p: i for i, p in enumerate(params)}
        allkw = new_kw + node.keywords
        allkw.sort(key=lambda k: order.get(k.arg, len(order)))
        node.args = []
        node.keywords = allkw
        return node

    def visit_Call(self, node):
        self.generic_visit(node)
        node = self._keywordise(node)
        f = node.func
        # set(<generator>) / list(<generator>) -> comprehension
        if isinstance(f, ast.Name) and f.id in ("set", "list", "frozenset") and len(node.args) == 1 and not node.keywords and isinstance(node.args[0], ast.GeneratorExp) and f.id not in self.bound:
            g = node.args[0]
            cls = ast.ListComp if f.id == "list" else ast.SetComp  # a frozenset built once is read like the set (membership, iteration)
            return ast.copy_location(cls(elt=g.elt, generators=g.generators), node)
        # dict({..}) / list([..]) / set({..}): a fresh copy of a display is the display
        if isinstance(f, ast.Name) and f.id not in self.bound and len(node.args) == 1 and not node.keywords and (
                (f.id == "dict" and isinstance(node.args[0], ast.Dict)) or (f.id == "list" and isinstance(node.args[0], ast.List)) or (f.id == "set" and isinstance(node.args[0], ast.Set))):
            return node.args[0]
        # (lambda x: E)(a) -> E[x := a]   (positional, atomic arguments: beta reduction cannot duplicate or reorder an effect)
        if isinstance(f, ast.Lambda) and not node.keywords and not f.args.vararg and not f.args.kwarg and not f.args.kwonlyargs and not f.args.defaults \
                and len(node.args) == len(f.args.posonlyargs + f.args.args) and all(isinstance(a, (ast.Name, ast.Constant)) or (isinstance(a, ast.Attribute) and isinstance(a.value, ast.Name)) for a in node.args):
            import copy as _c
            m = {p.arg: a for p, a in zip(f.args.posonlyargs + f.args.args, node.args)}
            inner_binds = {x.arg for l in ast.walk(f.body) if isinstance(l, ast.Lambda) for x in l.args.args} | \
                {n.id for c in ast.walk(f.body) if isinstance(c, ast.comprehension) for n in ast.walk(c.target) if isinstance(n, ast.Name)}
            if not (set(m) & inner_binds) and not any(isinstance(a, ast.Name) and a.id in inner_binds for a in node.args):
                class _B(ast.NodeTransformer):
                    def visit_Name(self, n):
                        return _c.deepcopy(m[n.id]) if n.id in m and isinstance(n.ctx, ast.Load) else n
                return ast.copy_location(_B().visit(_c.deepcopy(f.body)), node)
        # str.lower(x) -> x.lower()   (unbound method of str applied to its receiver)
        if isinstance(f, ast.Attribute) and isinstance(f.value, ast.Name) and f.value.id == "str" and "str" not in self.bound and node.args and not isinstance(node.args[0], ast.Starred) \
                and f.attr in ("lower", "upper", "strip", "lstrip", "rstrip", "title", "capitalize", "casefold", "split", "startswith", "endswith", "replace", "join", "format", "isidentifier"):
            return ast.copy_location(ast.Call(func=ast.Attribute(value=node.args[0], attr=f.attr, ctx=ast.Load()), args=node.args[1:], keywords=node.keywords), node)
        # map(f, xs) -> (f(_m) for _m in xs)   (one iterable, f a plain function reference)
        if isinstance(f, ast.Name) and f.id == "map" and "map" not in self.bound and len(node.args) == 2 and not node.keywords and isinstance(node.args[0], (ast.Name, ast.Attribute)) \
                and not isinstance(node.args[1], ast.Starred):
            call = self.visit(ast.Call(func=node.args[0], args=[ast.Name(id="_m", ctx=ast.Load())], keywords=[]))
            gen = ast.GeneratorExp(elt=call, generators=[ast.comprehension(target=ast.Name(id="_m", ctx=ast.Store()), iter=node.args[1], ifs=[], is_async=0)])
            return ast.copy_location(self._alpha_comp(gen, getattr(self, "_cdepth", 0)), node)
        # graphql-core: build_schema(src, ...) is build_ast_schema(parse(src), ...) (library source checked once)
        if isinstance(f, ast.Name) and f.id == "build_schema" and "build_schema" not in self.bound and len(node.args) == 1 and not isinstance(node.args[0], ast.Starred) \
                and all(k.arg in ("assume_valid", "assume_valid_sdl") for k in node.keywords) and _lib_build_schema_is_parse_then_build():
            inner = ast.Call(func=ast.Name(id="parse", ctx=ast.Load()), args=[node.args[0]], keywords=[])
            return ast.copy_location(ast.Call(func=ast.Name(id="build_ast_schema", ctx=ast.Load()), args=[inner], keywords=node.keywords), node)
        # sep.join over a one-element display, or over a comprehension without filter on a one-element display: the element itself
        if isinstance(f, ast.Attribute) and f.attr == "join" and isinstance(f.value, ast.Constant) and isinstance(f.value.value, str) and len(node.args) == 1 and not node.keywords:
            a0 = node.args[0]
            if isinstance(a0, (ast.List, ast.Tuple)) and len(a0.elts) == 1 and not isinstance(a0.elts[0], ast.Starred):
                return a0.elts[0]
            if isinstance(a0, (ast.ListComp, ast.GeneratorExp)) and len(a0.generators) == 1 and not a0.generators[0].ifs and isinstance(a0.generators[0].target, ast.Name) \
                    and isinstance(a0.generators[0].iter, (ast.List, ast.Tuple)) and len(a0.generators[0].iter.elts) == 1 and not isinstance(a0.generators[0].iter.elts[0], ast.Starred):
                import copy as _c
                tgt, item = a0.generators[0].target.id, a0.generators[0].iter.elts[0]

                class _S(ast.NodeTransformer):
                    def visit_Name(self, n):
                        return _c.deepcopy(item) if n.id == tgt and isinstance(n.ctx, ast.Load) else n
                return _S().visit(_c.deepcopy(a0.elt))
        # consumers that only iterate their argument: a list comprehension there is read like a generator expression
        if len(node.args) == 1 and not node.keywords and isinstance(node.args[0], ast.ListComp) and (
                (isinstance(f, ast.Attribute) and f.attr == "join") or
                (isinstance(f, ast.Name) and f.id in ("sorted", "tuple", "any", "all", "sum", "min", "max", "enumerate", "frozenset", "dict") and f.id not in self.bound)):
            lc = node.args[0]
            node.args[0] = ast.copy_location(ast.GeneratorExp(elt=lc.elt, generators=lc.generators), lc)
            return node
        # set(d.keys()) -> set(d)   (also list / sorted / tuple / frozenset / len / iter / enumerate)
        if isinstance(f, ast.Name) and f.id in ("set", "list", "sorted", "tuple", "frozenset", "iter", "enumerate") and node.args and _is_keys_call(node.args[0]):
            node.args[0] = node.args[0].func.value
            return node
        # a.union(b) -> a | b
        if isinstance(f, ast.Attribute) and f.attr in self._SETOPS and len(node.args) == 1 and not node.keywords and not isinstance(node.args[0], ast.Starred):
            return ast.copy_location(ast.BinOp(left=f.value, op=self._SETOPS[f.attr](), right=node.args[0]), node)
        # isinstance(x, (A, B)) -> isinstance(x, A) or isinstance(x, B)
        if isinstance(f, ast.Name) and f.id == "isinstance" and len(node.args) == 2 and isinstance(node.args[1], ast.Tuple) and len(node.args[1].elts) > 1 and not node.keywords:
            import copy as _c
            return ast.copy_location(ast.BoolOp(op=ast.Or(), values=[ast.Call(func=ast.Name(id="isinstance", ctx=ast.Load()), args=[_c.deepcopy(node.args[0]), e], keywords=[])
                                                                      for e in node.args[1].elts]), node)
        return node

    def visit_comprehension(self, node):
        self.generic_visit(node)
        if _is_keys_call(node.iter):
            node.iter = node.iter.func.value
        return node

    def visit_Compare(self, node):
        self.generic_visit(node)
        # CONST == x -> x == CONST   (equality is symmetric for the values compared here: strings, numbers, None, enum members)
        if len(node.ops) == 1 and isinstance(node.ops[0], (ast.Eq, ast.NotEq)):
            l, r = node.left, node.comparators[0]
            def _k(e):
                return isinstance(e, ast.Constant) or (isinstance(e, ast.Name) and e.id.isupper()) or (isinstance(e, ast.Attribute) and e.attr.isupper())
            if _k(l) and not _k(r):
                node.left, node.comparators = r, [l]
        if len(node.ops) == 1 and isinstance(node.ops[0], (ast.In, ast.NotIn)) and _is_keys_call(node.comparators[0]):
            node.comparators[0] = node.comparators[0].func.value
        return node

    def visit_BinOp(self, node):
        self.generic_visit(node)
        # string concatenation with a literal part -> f-string
        if isinstance(node.op, ast.Add):
            parts = _concat_parts(node)
            if parts is not None:
                # str('lit') is 'lit' (a module constant folded into the call by the loader: `str(a) + str(SUFFIX)`)
                parts = [p.args[0] if isinstance(p, ast.Call) and isinstance(p.func, ast.Name) and p.func.id == "str" and len(p.args) == 1 and not p.keywords
                         and isinstance(p.args[0], ast.Constant) and isinstance(p.args[0].value, str) else p for p in parts]
            if parts is not None and any(isinstance(p, (ast.Constant, ast.JoinedStr)) for p in parts) and any(not isinstance(p, ast.Constant) for p in parts):
                vals = []
                for p in parts:
                    if isinstance(p, ast.Constant):
                        vals.append(p)
                    elif isinstance(p, ast.JoinedStr):
                        vals.extend(p.values)
                    else:
                        vals.append(self.visit_FormattedValue(ast.FormattedValue(value=p, conversion=-1, format_spec=None)))
                merged = []
                for v in vals:
                    if isinstance(v, ast.Constant) and merged and isinstance(merged[-1], ast.Constant):
                        merged[-1] = ast.Constant(value=merged[-1].value + v.value)
                    else:
                        merged.append(v)
                return ast.copy_location(ast.JoinedStr(values=merged), node)
        return node

    def visit_keyword(self, node):
        self.generic_visit(node)
        return node

    def visit_JoinedStr(self, node):
        self.generic_visit(node)
        # f"{x}{'Fields'}" -> f"{x}Fields": a constant string part (e.g. a folded named constant) is literal text
        vals = []
        for v in node.values:
            if isinstance(v, ast.FormattedValue) and v.conversion == -1 and v.format_spec is None and isinstance(v.value, ast.Constant) and isinstance(v.value.value, str):
                v = ast.Constant(value=v.value.value)
            if isinstance(v, ast.Constant) and isinstance(v.value, str) and vals and isinstance(vals[-1], ast.Constant) and isinstance(vals[-1].value, str):
                vals[-1] = ast.Constant(value=vals[-1].value + v.value)
            else:
                vals.append(v)
        node.values = vals
        if len(vals) == 1 and isinstance(vals[0], ast.Constant):
            return ast.copy_location(vals[0], node)
        return node

    def visit_FormattedValue(self, node):
        self.generic_visit(node)
        # f"{str(x)}" / f"{x!s}" -> f"{x}"   (format(x, "") is str(x) for everything that does not override __format__)
        if node.format_spec is None and node.conversion in (-1, 115):
            v = node.value
            if isinstance(v, ast.Call) and isinstance(v.func, ast.Name) and v.func.id == "str" and "str" not in self.bound and len(v.args) == 1 and not v.keywords and not isinstance(v.args[0], ast.Starred):
                node.value = v.args[0]
            if node.conversion == 115:
                node.conversion = -1
        return node

    def visit_Attribute(self, node):
        # never fold the attribute name; fold `module.CONST`?  no: keep attribute chains as they are
        self.generic_visit(node)
        return node

    # binding constructs: names bound by comprehensions / lambdas shadow constants
    def _with_bound(self, names, fn):
        saved = self.bound
        self.bound = self.bound | set(names)
        try:
            return fn()
        finally:
            self.bound = saved

    def visit_Lambda(self, node):
        a = node.args
        names = [x.arg for x in a.posonlyargs + a.args + a.kwonlyargs] + ([a.vararg.arg] if a.vararg else []) + ([a.kwarg.arg] if a.kwarg else [])
        return self._with_bound(names, lambda: self.generic_visit(node))

    def _comp(self, node):
        names = [n.id for g in node.generators for n in ast.walk(g.target) if isinstance(n, ast.Name)]
        self._cdepth = getattr(self, "_cdepth", 0) + 1
        try:
            node = self._with_bound(names, lambda: self.generic_visit(node))
        finally:
            self._cdepth -= 1
        return self._alpha_comp(self._fuse_comp(node), self._cdepth)

    @staticmethod
    def _fuse_comp(node):
        """`[g(y) for y in [E for x in X if c] ...]` -> `[g(E) for x in X if c ...]` when E is a call-free expression of x
        (a lookup / attribute chain): the intermediate list only renames elements"""
        import copy as _c
        changed = True
        while changed:
            changed = False
            for gi, g in enumerate(node.generators):
                it = g.iter
                if isinstance(it, (ast.ListComp, ast.GeneratorExp)) and len(it.generators) == 1 and isinstance(g.target, ast.Name) and not g.is_async \
                        and not any(isinstance(n, (ast.Call, ast.Await, ast.Yield, ast.NamedExpr, ast.Lambda, ast.ListComp, ast.GeneratorExp, ast.SetComp, ast.DictComp)) for n in ast.walk(it.elt)):
                    inner = it.generators[0]
                    inner_names = {n.id for n in ast.walk(inner.target) if isinstance(n, ast.Name)}
                    outer_names = {n.id for gg in node.generators for n in ast.walk(gg.target) if isinstance(n, ast.Name)}
                    if inner_names & outer_names:
                        continue
                    y, E = g.target.id, it.elt

                    class S(ast.NodeTransformer):
                        def visit_Name(self, n):
                            return _c.deepcopy(E) if n.id == y and isinstance(n.ctx, ast.Load) else n
                    new_gen = ast.comprehension(target=inner.target, iter=inner.iter, ifs=list(inner.ifs) + [S().visit(c_) for c_ in g.ifs], is_async=0)
                    rest = []
                    for gg in node.generators[gi + 1:]:
                        rest.append(ast.comprehension(target=gg.target, iter=S().visit(gg.iter), ifs=[S().visit(c_) for c_ in gg.ifs], is_async=gg.is_async))
                    node.generators = node.generators[:gi] + [new_gen] + rest
                    for fld in ("elt", "key", "value"):
                        if hasattr(node, fld):
                            setattr(node, fld, S().visit(getattr(node, fld)))
                    changed = True
                    break
        return node

    @staticmethod
    def _alpha_comp(node, depth):
        """the variables a comprehension binds are written _c<depth>x<k> (k-th bound name): comprehensions that differ only in
        the spelling of their loop variables have one text"""
        ren: Dict[str, str] = {}
        for g in node.generators:
            for n in ast.walk(g.target):
                if isinstance(n, ast.Name) and n.id not in ren:
                    ren[n.id] = f"_c{depth}x{len(ren)}"
        if not ren or all(k == v for k, v in ren.items()):
            return node

        class R(ast.NodeTransformer):
            def visit_Name(self, n):
                return ast.copy_location(ast.Name(id=ren[n.id], ctx=n.ctx), n) if n.id in ren else n

            def visit_Lambda(self, n):
                a = n.args
                own = {x.arg for x in a.posonlyargs + a.args + a.kwonlyargs} | ({a.vararg.arg} if a.vararg else set()) | ({a.kwarg.arg} if a.kwarg else set())
                if own & set(ren):
                    return n
                return self.generic_visit(n)
        r = R()
        first_iter = node.generators[0].iter       # evaluated in the enclosing scope
        for fld in ("elt", "key", "value"):
            if hasattr(node, fld):
                setattr(node, fld, r.visit(getattr(node, fld)))
        for i, g in enumerate(node.generators):
            g.target = r.visit(g.target)
            if i > 0:
                g.iter = r.visit(g.iter)
            g.ifs = [r.visit(c) for c in g.ifs]
        node.generators[0].iter = first_iter
        return node

    visit_ListComp = visit_SetComp = visit_GeneratorExp = visit_DictComp = _comp


_BUILD_SCHEMA_OK = None


def _lib_build_schema_is_parse_then_build() -> bool:
    """oracle: the installed graphql-core defines build_schema(source, ...) as build_ast_schema(parse(source, ...), assume_valid=..., assume_valid_sdl=...)"""
    global _BUILD_SCHEMA_OK
    if _BUILD_SCHEMA_OK is None:
        _BUILD_SCHEMA_OK = False
        try:
            import importlib.util
            spec = importlib.util.find_spec("graphql")
            base = os.path.dirname(spec.origin) if spec and spec.origin else None
            src = open(os.path.join(base, "utilities", "build_ast_schema.py")).read() if base else ""
            for n in ast.walk(ast.parse(src)):
                if isinstance(n, ast.FunctionDef) and n.name == "build_schema":
                    body = [b for b in n.body if not (isinstance(b, ast.Expr) and isinstance(b.value, ast.Constant))]
                    if len(body) == 1 and isinstance(body[0], ast.Return) and isinstance(body[0].value, ast.Call) and getattr(body[0].value.func, "id", "") == "build_ast_schema":
                        c = body[0].value
                        inner = c.args[0] if c.args else None
                        if isinstance(inner, ast.Call) and getattr(inner.func, "id", "") == "parse" and inner.args and getattr(inner.args[0], "id", "") == n.args.args[0].arg \
                                and {k.arg: getattr(k.value, "id", None) for k in c.keywords} == {"assume_valid": "assume_valid", "assume_valid_sdl": "assume_valid_sdl"}:
                            _BUILD_SCHEMA_OK = True
        except Exception:
            _BUILD_SCHEMA_OK = False
    return _BUILD_SCHEMA_OK


_LIB_METHOD_NAMES = {"get", "append", "extend", "add", "update", "pop", "items", "keys", "values", "join", "split", "format", "copy", "index", "count", "insert", "remove",
                     "replace", "strip", "lstrip", "rstrip", "startswith", "endswith", "lower", "upper", "read_text", "write_text", "exists", "mkdir", "glob", "generic_visit",
                     "parse", "dump", "dumps", "loads", "load", "post", "json", "send", "recv", "close", "encode", "decode", "setdefault", "sort", "union", "difference"}


def sig_from_table(table: Dict[str, list]):
    """lookup(name, is_attribute_call) -> parameter names to bind positional arguments to, or None when the name is not
    a unique repository function (or is also a common library method name)"""
    def lookup(name: str, is_attr: bool):
        ss = table.get(name)
        if not ss or name in _LIB_METHOD_NAMES or name.startswith("__"):
            return None
        forms = {(tuple(x["pos"]), tuple(x["kwonly"]), x["vararg"], x.get("method", False), x.get("static", False)) for x in ss}
        if len(forms) != 1:
            return None
        pos, kwonly, vararg, method, static = next(iter(forms))
        if vararg:
            return None
        pos = list(pos)
        if method and not static and pos and pos[0] in ("self", "cls"):
            if not is_attr:
                return None  # a method called by bare name: not this function
            pos = pos[1:]
        elif is_attr and not method:
            return None  # `x.f(..)` where f is a plain function of the repository: some other object's method
        return pos
    return lookup


_pinned_sig_lookup = None


def _pinned_sigs(name: str, is_attr: bool):
    global _pinned_sig_lookup
    if _pinned_sig_lookup is None:
        _pinned_sig_lookup = sig_from_table(pinned().get("sigs", {}))
    return _pinned_sig_lookup(name, is_attr)


def _pinned_const(name: str):
    c = pinned()["consts"]
    if name in c:
        return (True, c[name])
    return None


_IDENT = re.compile(r"(?<![A-Za-z0-9_.'\"])([A-Z][A-Z0-9_]{2,})(?![A-Za-z0-9_(])")


@lru_cache(maxsize=200000)
def canon_text(text: str) -> str:
    """canonical form of a pattern written against the pinned tree"""
    if not isinstance(text, str) or not text:
        return text
    consts = pinned()["consts"]
    if not any(k in text for k in consts) and not any(tok in text for tok in (" if ", ".union(", ".difference(", ".intersection(", ".keys()", "isinstance(", " + ", "set(", "list(", "frozenset(", "dict(", "[", "not ", "!s}", " for ", " == ", " != ")) and "(" not in text:
        return text
    # pseudo calls of the interpreter (<elem>(it), <pre>(e, n, k), <setitem>(d, k, v), <setattr>(o, a, v)) are not Python:
    # they are spelled as identifiers while the text is parsed and restored afterwards
    pseudo = [(m, "_PSEUDO_" + m.strip("<>").upper() + "_") for m in ("<elem>", "<pre>", "<setitem>", "<setattr>", "<delitem>")]
    ptext = text
    for a, b in pseudo:
        ptext = ptext.replace(a, b)
    ptext = re.sub(r"\$(\d+(?:_\d+)*)", r"_PSEUDO_DOLLAR_\1_", ptext)
    kwfrag = re.match(r"^[A-Za-z_]\w*=[^=]", ptext) is not None  # "name=value[, ...]": keyword arguments, not an assignment
    for mode in (("eval",) if kwfrag else ("eval", "exec")):
        try:
            tree = ast.parse(ptext, mode=mode)
        except SyntaxError:
            continue
        if mode == "exec" and any(isinstance(st, ast.AnnAssign) and st.value is None for st in tree.body):
            break  # "KEY: value" fragments of a dict display parse as bare annotations
        try:
            tree = ExprCanon(_pinned_const, sigs=_pinned_sigs).visit(tree)
            ast.fix_missing_locations(tree)
            res = " ".join(ast.unparse(tree).split())
            for a, b in pseudo:
                res = res.replace(b, a)
            return re.sub(r"_PSEUDO_DOLLAR_(\d+(?:_\d+)*)_", r"$\1", res)
        except Exception:
            break
    # fragments: "elt for x in xs" / "a, b" -> [..]; "k: v" -> {..}; "a=1, b=2" -> f(..)
    for pre, post, cut in (("[", "]", (1, -1)), ("{", "}", (1, -1)), ("_PSEUDO_F_(", ")", (len("_PSEUDO_F_("), -1))):
        try:
            tree = ast.parse(pre + ptext + post, mode="eval")
        except SyntaxError:
            continue
        try:
            tree = ExprCanon(_pinned_const, sigs=_pinned_sigs).visit(tree)
            ast.fix_missing_locations(tree)
            res = " ".join(ast.unparse(tree).split())
            if not (res.startswith(pre) and res.endswith(post)):
                continue
            res = res[cut[0]:cut[1]]
            for a, b in pseudo:
                res = res.replace(b, a)
            return re.sub(r"_PSEUDO_DOLLAR_(\d+(?:_\d+)*)_", r"$\1", res)
        except Exception:
            break
    # not parseable (a prefix / fragment): textual folding of constant names
    def rep(m):
        n = m.group(1)
        if n in consts:
            return " ".join(ast.unparse(const_node(consts[n])).split())
        return n
    return _IDENT.sub(rep, text)


class NormText(str):
    """canonical source text of a node; comparisons canonicalise the other operand"""
    __slots__ = ()

    def __eq__(self, other):
        if isinstance(other, str) and not isinstance(other, NormText):
            other = canon_text(other)
        return str.__eq__(self, other)

    def __ne__(self, other):
        r = self.__eq__(other)
        return r if r is NotImplemented else not r

    __hash__ = str.__hash__

    def __contains__(self, item):
        if isinstance(item, str) and not isinstance(item, NormText):
            item = canon_text(item)
        return str.__contains__(self, item)

    def startswith(self, prefix, *a):
        if isinstance(prefix, tuple):
            prefix = tuple(canon_text(p) if not isinstance(p, NormText) else p for p in prefix)
        elif isinstance(prefix, str) and not isinstance(prefix, NormText):
            prefix = canon_text(prefix)
        return str.startswith(self, prefix, *a)

    def endswith(self, suffix, *a):
        if isinstance(suffix, tuple):
            suffix = tuple(canon_text(p) if not isinstance(p, NormText) else p for p in suffix)
        elif isinstance(suffix, str) and not isinstance(suffix, NormText):
            suffix = canon_text(suffix)
        return str.endswith(self, suffix, *a)
