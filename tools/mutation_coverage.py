#!/venv/bin/python
"""Development helper: where are the rules blind?  Generates small syntactic mutants of every function of the package
(never executed - they are only parsed and handed to the checker in memory) and records which are reported by ANY of the
19 checks.  Functions none of whose mutants is reported are candidates for new rules (or are irrelevant to the
properties: cosmetic code, unused helpers).   usage: mutation_coverage.py [path-substring ...]  > report"""
import ast, copy, json, multiprocessing as mp, os, subprocess, sys
ROOT = os.path.dirname(os.path.dirname(os.path.abspath(__file__)))
sys.path.insert(0, ROOT)
from sa import report  # noqa: E402
from sa.model import Repo  # noqa: E402
import sa.rules  # noqa: F401,E402
from sa.props import PROPS  # noqa: E402

MAX_PER_FN = int(os.environ.get("MUT_PER_FN", "6"))


def candidates(fn):
    """(description, path to node) edits inside one function"""
    out = []
    for n in ast.walk(fn):
        if isinstance(n, (ast.If, ast.While)) :
            out.append(("negate test", n, "negate"))
        if isinstance(n, ast.IfExp):
            out.append(("swap IfExp arms", n, "swaparms"))
        if isinstance(n, ast.BoolOp):
            out.append(("and<->or", n, "boolop"))
        if isinstance(n, ast.Compare) and len(n.ops) == 1 and isinstance(n.ops[0], (ast.Eq, ast.NotEq, ast.In, ast.NotIn, ast.Is, ast.IsNot)):
            out.append(("flip comparison", n, "cmp"))
        if isinstance(n, ast.Expr) and isinstance(n.value, ast.Call):
            out.append(("drop call statement " + ast.unparse(n.value.func)[:40], n, "dropstmt"))
        if isinstance(n, ast.Call) and n.keywords and any(k.arg for k in n.keywords):
            out.append(("drop last keyword of " + ast.unparse(n.func)[:40], n, "dropkw"))
        if isinstance(n, ast.Constant) and isinstance(n.value, bool):
            out.append(("flip bool constant", n, "bool"))
        if isinstance(n, ast.Return) and n.value is not None and not isinstance(n.value, ast.Constant):
            out.append(("return None", n, "retnone"))
    return out


def apply(tree, fn_name, fn_line, idx):
    for f in ast.walk(tree):
        if isinstance(f, (ast.FunctionDef, ast.AsyncFunctionDef)) and f.name == fn_name and f.lineno == fn_line:
            cs = candidates(f)
            if idx >= len(cs):
                return None
            desc, n, kind = cs[idx]
            line = getattr(n, "lineno", 0)
            if kind == "negate":
                n.test = ast.UnaryOp(op=ast.Not(), operand=n.test)
            elif kind == "swaparms":
                n.body, n.orelse = n.orelse, n.body
            elif kind == "boolop":
                n.op = ast.Or() if isinstance(n.op, ast.And) else ast.And()
            elif kind == "cmp":
                m = {ast.Eq: ast.NotEq, ast.NotEq: ast.Eq, ast.In: ast.NotIn, ast.NotIn: ast.In, ast.Is: ast.IsNot, ast.IsNot: ast.Is}
                n.ops = [m[type(n.ops[0])]()]
            elif kind == "dropstmt":
                n.value = ast.Constant(value=None)
            elif kind == "dropkw":
                named = [k for k in n.keywords if k.arg]
                n.keywords.remove(named[-1])
            elif kind == "bool":
                n.value = not n.value
            elif kind == "retnone":
                n.value = ast.Constant(value=None)
            return f"{desc} @L{line}"
    return None


_WT = None


def _init_worker():
    global _WT
    import multiprocessing
    ident = multiprocessing.current_process()._identity[0]
    _WT = f"/tmp/mcw_{ident}"
    subprocess.run(["git", "-C", "/repo", "worktree", "remove", "--force", _WT], capture_output=True)
    subprocess.run(["git", "-C", "/repo", "worktree", "add", "-q", "--detach", _WT, "HEAD"], check=True)


def _test_mutant(r):
    rel, fn, line, desc, _hits, src = r
    path = os.path.join(_WT, rel)
    orig = open(path).read()
    try:
        open(path, "w").write(src)
        b = subprocess.run([os.path.join(ROOT, "tools", "baseline_check.py"), _WT], capture_output=True, text=True, timeout=900)
        alive = b.returncode == 0
    except Exception:
        alive = False
    finally:
        open(path, "w").write(orig)
    return rel, fn, line, desc, alive


def work(job):
    rel, fn_name, fn_line, idx = job
    repo = Repo()
    mod = [m for m in repo.modules.values() if m.relpath == rel][0]
    tree = ast.parse(mod.source)
    desc = apply(tree, fn_name, fn_line, idx)
    if desc is None:
        return None
    ast.fix_missing_locations(tree)
    try:
        src = ast.unparse(tree)
        ast.parse(src)
    except Exception:
        return None
    r2 = Repo(overrides={rel: src})
    hits = []
    for p in sorted(PROPS):
        rr = report.run_property(r2, p, "quick")
        if rr.violations or rr.errors:
            hits.append(p + ":" + ",".join(sorted({f.rule for f in rr.violations})[:3]) + ("!" if rr.errors else ""))
    return (rel, fn_name, fn_line, desc, hits, src if not hits else None)


if __name__ == "__main__":
    only = sys.argv[1:]
    repo = Repo()
    jobs = []
    for m in repo.modules.values():
        if only and not any(o in m.relpath for o in only):
            continue
        tree = ast.parse(m.source)
        for f in ast.walk(tree):
            if isinstance(f, (ast.FunctionDef, ast.AsyncFunctionDef)):
                n = len(candidates(f))
                if n == 0:
                    continue
                step = max(1, n // MAX_PER_FN)
                for idx in list(range(0, n, step))[:MAX_PER_FN]:
                    jobs.append((m.relpath, f.name, f.lineno, idx))
    with mp.Pool(int(os.environ.get("VERIF_JOBS", "14"))) as pool:
        res = [r for r in pool.map(work, jobs, chunksize=2) if r is not None]
    by_fn = {}
    for rel, fn, line, desc, hits, _src in res:
        by_fn.setdefault((rel, fn, line), []).append((desc, hits))
    tot = len(res)
    det = sum(1 for r in res if r[4])
    print(f"{tot} mutants, {det} reported by at least one check ({100 * det // max(tot, 1)}%)")
    survivors = []
    if os.environ.get("MUT_SURVIVORS"):
        # phase 2 (development only): which unreported mutants also survive the project's own test suite?  Those are the
        # realistic blind spots.  Each worker owns a scratch git worktree of /repo under /tmp; the mutated file is written
        # there, the pinned test command is run, the file is restored.
        todo = [r for r in res if not r[4] and r[5] is not None]
        print(f"running the test suite on {len(todo)} unreported mutants ...", flush=True)
        with mp.Pool(int(os.environ.get("MUT_TEST_JOBS", "4")), initializer=_init_worker) as pool:
            for rel, fn, line, desc, alive in pool.imap_unordered(_test_mutant, todo, chunksize=1):
                if alive:
                    survivors.append((rel, fn, line, desc))
                    print(f"SURVIVES {rel}:{line} {fn}: {desc}", flush=True)
        for w in range(64):
            d = f"/tmp/mcw_{w}"
            if os.path.isdir(d):
                subprocess.run(["git", "-C", "/repo", "worktree", "remove", "--force", d], capture_output=True)
        print(f"{len(survivors)} unreported mutants survive the test suite")
    print("\n== functions with NO mutant reported")
    for (rel, fn, line), ms in sorted(by_fn.items()):
        if not any(h for _, h in ms):
            print(f"{rel}:{line} {fn}  ({len(ms)} mutants)")
    print("\n== functions partially covered: unreported mutants")
    for (rel, fn, line), ms in sorted(by_fn.items()):
        if any(h for _, h in ms) and not all(h for _, h in ms):
            for d, h in ms:
                if not h:
                    print(f"{rel}:{line} {fn}: {d}")
    json.dump([{"file": r[0], "function": r[1], "line": r[2], "mutant": r[3], "reported_by": r[4]} for r in res], open("/tmp/mutation_coverage.json", "w"), indent=0)
    json.dump([{"file": a, "function": b, "line": c, "mutant": d} for a, b, c, d in survivors], open("/tmp/mutation_survivors.json", "w"), indent=0)
