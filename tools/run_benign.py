#!/venv/bin/python
"""Development helper: run ALL property checks against behaviour-preserving patches (benign refactors written by
independent sub-agents).  usage: run_benign.py <dir with Cxx/refactorN.diff | benign dir> [filter...]
Each patch is applied to a scratch copy of /repo's package under /tmp (never to /repo); the copy is removed afterwards.
Every alarm (VIOLATION or ANALYSIS-ERROR) on such a patch is a false alarm of the checker."""
import glob, json, os, shutil, subprocess, sys, tempfile
from multiprocessing import Pool
ROOT = os.path.dirname(os.path.dirname(os.path.abspath(__file__)))
PROPS = [f"C{i:02d}" for i in range(1, 20)]


def work(patch):
    tmp = tempfile.mkdtemp(prefix="benchk_")
    try:
        shutil.copytree("/repo/ariadne_codegen", os.path.join(tmp, "ariadne_codegen"))
        p = subprocess.run(["git", "apply", "--include=ariadne_codegen/*", patch], cwd=tmp, capture_output=True, text=True)
        if p.returncode != 0:
            return patch, [("PATCH-FAILED", p.stdout[-200:] + p.stderr[-200:])]
        r = subprocess.run(["/venv/bin/python", os.path.join(ROOT, "check.py"), "--repo", tmp, "--all", "--no-evidence"], capture_output=True, text=True)
        out = []
        seen = set()
        lines = r.stdout.splitlines()
        for i, l in enumerate(lines):
            if l.strip().startswith("violation:"):
                k = l.strip()
                if k not in seen:
                    seen.add(k)
                    out.append(("VIOLATION", k + " :: " + (lines[i + 1].strip()[:200] if i + 1 < len(lines) else "")))
            elif "ANALYSIS-ERROR" in l:
                k = l.split("ANALYSIS-ERROR:")[-1].strip()
                k2 = k.split(" ", 1)[-1]
                if k2 not in seen:
                    seen.add(k2)
                    out.append(("ERROR", k[:260]))
        return patch, out
    finally:
        shutil.rmtree(tmp, ignore_errors=True)


if __name__ == "__main__":
    base = sys.argv[1]
    only = sys.argv[2:]
    patches = sorted(glob.glob(os.path.join(base, "*", "*.diff")))
    patches = [p for p in patches if not only or any(o in p for o in only)]
    bad = 0
    with Pool(8) as pool:
        for patch, out in pool.map(work, patches):
            tag = "/".join(patch.split("/")[-2:])
            if out:
                bad += 1
                print(f"{tag}: ALARM")
                for k, m in out:
                    print(f"    {k}: {m}")
            else:
                print(f"{tag}: silent")
    print(f"{len(patches) - bad}/{len(patches)} silent")
