#!/venv/bin/python
"""Development helper: confirm behaviour-preserving refactors written by sub-agents (they keep the pinned suite green) in
a scratch worktree of /repo and store them under /verif/benign/<id>/ (patch.diff, NOTES.md, meta.json).
usage: ingest_benign.py <dir with Cxx/refactorN.diff> [filter ...]"""
import glob, json, os, shutil, subprocess, sys
from multiprocessing import Pool
ROOT = os.path.dirname(os.path.dirname(os.path.abspath(__file__)))


def work(patch):
    prop = patch.split("/")[-2]
    n = os.path.basename(patch).replace("refactor", "").replace(".diff", "")
    n = str(int(n) + int(os.environ.get("BENIGN_OFFSET", "0")))
    sid = f"{prop}-b{n}"
    wt = f"/tmp/ingestb_{sid}"
    subprocess.run(["git", "-C", "/repo", "worktree", "remove", "--force", wt], capture_output=True)
    subprocess.run(["git", "-C", "/repo", "worktree", "add", "-q", "--detach", wt, "HEAD"], check=True)
    try:
        a = subprocess.run(["git", "-C", wt, "apply", patch], capture_output=True, text=True)
        if a.returncode != 0:
            return sid, "PATCH DOES NOT APPLY"
        touched = subprocess.run(["git", "-C", wt, "diff", "--name-only"], capture_output=True, text=True).stdout.split()
        b = subprocess.run([os.path.join(ROOT, "tools", "baseline_check.py"), wt], capture_output=True, text=True)
        if b.returncode != 0 or not all(t.startswith(("ariadne_codegen/", "tests/main/")) for t in touched):
            return sid, f"REJECTED baseline_rc={b.returncode} touched={touched} {b.stdout[-200:]}"
        d = os.path.join(ROOT, "benign", sid)
        os.makedirs(d, exist_ok=True)
        shutil.copy(patch, os.path.join(d, "patch.diff"))
        notes = os.path.join(os.path.dirname(patch), "NOTES.md")
        if os.path.exists(notes):
            shutil.copy(notes, os.path.join(d, "NOTES.md"))
        meta = {"id": sid, "kind": "behaviour-preserving refactor", "written_for_property": prop,
                "source": "independent sub-agent given only the property text and a private worktree; asked for refactors that keep the property true",
                "files_touched": touched,
                "confirmed": {"baseline_676_tests_still_pass": True, "how": "tools/ingest_benign.py: scratch git worktree of /repo HEAD under /tmp, git apply, tools/baseline_check.py",
                              "behaviour_preservation": "argued and differential-tested by the author (NOTES.md); not re-proved here"}}
        json.dump(meta, open(os.path.join(d, "meta.json"), "w"), indent=1)
        return sid, "CONFIRMED"
    finally:
        subprocess.run(["git", "-C", "/repo", "worktree", "remove", "--force", wt], capture_output=True)


if __name__ == "__main__":
    base = sys.argv[1]
    only = sys.argv[2:]
    patches = sorted(glob.glob(os.path.join(base, "*", "refactor*.diff")))
    patches = [p for p in patches if not only or any(o in p for o in only)]
    with Pool(int(os.environ.get("VERIF_JOBS", "2"))) as pool:
        for sid, res in pool.imap(work, patches):
            print(sid, res, flush=True)
