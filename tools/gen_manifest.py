#!/venv/bin/python
"""(re)generate MANIFEST.json from the rule registry; development helper"""
import json, os, sys
sys.dont_write_bytecode = True
ROOT = os.path.dirname(os.path.dirname(os.path.abspath(__file__)))
sys.path.insert(0, ROOT)
from sa.props import PROPS
from sa.report import RULES, rules_for
import sa.rules  # noqa

TECH = {
    "C01": "decision-table abstract interpretation of the selection resolver (every selection kind/path accounted for) + CFG dominance (typename flag) + def-use pairing of annotation and class names",
    "C02": "def-use chain of the module text (only literal-preserving transformers) + directive-location/handler table agreement + shape extraction of the emitted execute call + graph-closure rules",
    "C03": "abstract interpretation of the argument generator loop (wire key vs. Python parameter provenance) + shape extraction of the method template (fixed names) + sibling rules on the four clients",
    "C04": "CFG must-pass (written => reported, validate before write) + table agreement (written names vs. collision list) + raise-discipline scan + library oracles (reserved types, enum reserved names)",
    "C05": "decision-table abstract interpretation of the GraphQL-type -> annotation mappers (nullable-flag transfer) + shape extraction of the annotation helpers",
    "C06": "decision-table abstract interpretation of the input mappers and default-value translator + ConstValueNode exhaustiveness oracle + information-flow check of the enum-literal context",
    "C07": "abstract interpretation of the scalar annotation builders (wrapper innermost, emitted only when configured) + shape/information-flow check of the variables-dict serialize call",
    "C08": "decision-table abstract interpretation of the unpack decision + effect-order analysis of the fragment DFS (post-order) + provenance of the fragments-module exclusion set",
    "C09": "effect analysis (who writes / reads the used-enum list) + CFG dominance in generate() + closure/worklist discipline of the input dependency walk",
    "C10": "order-taint analysis: set / directory-listing kind inference, ordered-use detection, order-insensitive sink classification, triaged site table with structural reasons; ambient-input and hidden-state scans",
    "C11": "sibling AST normal-form comparison (async/telemetry erasure) + path-sensitive abstract interpretation of the request builders and upload extraction over a finite decision table",
    "C12": "path-sensitive abstract interpretation of get_data over the response decision table (Kleene 3-valued branch evaluation), x4 clients",
    "C13": "CFG dominance for the handshake order + decision-table abstract interpretation of the frame handler + installed-library signature oracle",
    "C14": "shape extraction of the emitted builder classes/methods (wire names, None filter, assembly) + abstract interpretation of the runtime field builder (shared used-names set, recursive variable merge)",
    "C15": "hook-table agreement + abstract interpretation of the dispatcher + write-set (effect) analysis of every bundled plugin hook + ImportFrom level/module-text consistency",
    "C16": "shape extraction of the emitted graphql-core constructor calls against the installed to_kwargs oracle (keyword coverage, attribute pass-through, lazy references, variable names)",
    "C17": "CFG must-pass (every setting validated on every path; validators before the first write effect over the call graph) + abstract evaluation of the validators over small domains + assume_valid oracle",
    "C18": "regex -> NFA over character classes with universality check by subset construction (tokeniser coverage) + CFG order rules in process_name + scope-collision mechanism scan",
    "C19": "SDL-only datum scan (ast_node reads) + decision-table abstract interpretation of the introspection client + request-parameter provenance chain",
}
NA = {}
checks, na = [], []
for p in sorted(PROPS):
    specs = rules_for(p, "thorough")
    if not specs:
        na.append({"property_id": p, "reason": NA.get(p, "no static rule built for this property yet")})
        continue
    checks.append({
        "property_id": p,
        "quick_cmd": f"/venv/bin/python check.py --property {p} --tier quick",
        "thorough_cmd": f"/venv/bin/python check.py --property {p} --tier thorough",
        "evidence_file": f"/verif/evidence/{p}.json",
        "replay_cmd_template": "/venv/bin/python check.py --replay {path}",
        "engine": "sa",
        "level_claimed": {
            "category": "other",
            "text": PROPS[p]["explanation"] + " NOT decided: " + PROPS[p]["not_decided"] + ".",
            "design_ref": f"DESIGN.md section 4 {p}",
        },
        "level_note": "Trusted: CPython ast; the analyser in /verif/sa; " + "; ".join(PROPS[p]["assumptions"][1:]) + ". Rules: " + ", ".join(s.rid for s in specs),
        "technique": "static analysis: " + TECH.get(p, "custom AST/CFG/provenance rules over the repository source"),
    })
m = {
    "version": 1,
    "setup_cmd": "/venv/bin/python -c \"import ast, sys; sys.exit(0 if sys.version_info[:2] >= (3, 9) else 1)\"",
    "hooks": {
        "guard": "ARIADNE_CODEGEN_VERIF",
        "enable": "none: the analyser reads /repo's sources and needs no hook; the guard is declared but no commit uses it",
        "baseline_off_cmd": "cd /repo && /venv/bin/python -m pytest -ra -q -p no:cacheprovider --timeout=900 --continue-on-collection-errors",
        "source_commits": [],
        "add_only": True,
    },
    "engines": [{"name": "sa", "path": "/verif/sa", "serves_properties": [c["property_id"] for c in checks],
                 "kind_free_text": "repository-specific static analyser: ast program model, statement CFG with dominators, shape extraction (abstract interpretation of the AST-building generator), decision-table abstract interpreter, sibling normaliser, installed-library oracles"}],
    "checks": checks,
    "not_applicable": na,
    "notes": "All checks are pure static analysis of /repo's working tree with /venv/bin/python (stdlib only). exit 0 held / known findings only; 1 VIOLATION; 2 ANALYSIS-ERROR. Genuine defects repaired by 'fix:' commits and recorded ones are listed in /verif/known_findings.json.",
}
json.dump(m, open(os.path.join(ROOT, "MANIFEST.json"), "w"), indent=1)
print("checks:", [c["property_id"] for c in checks], "na:", [x["property_id"] for x in na])
