#!/venv/bin/python
"""(re)generate MANIFEST.json from the rule registry; development helper"""
import json, os, sys
sys.dont_write_bytecode = True
ROOT = os.path.dirname(os.path.dirname(os.path.abspath(__file__)))
sys.path.insert(0, ROOT)
from sa.props import PROPS
from sa.report import RULES, rules_for
import sa.rules  # noqa

TECH = {
    "C11": "sibling AST normal-form comparison (async/telemetry erasure) + path-sensitive abstract interpretation of the request builders over a finite decision table",
    "C12": "path-sensitive abstract interpretation of get_data over the response decision table (Kleene 3-valued branch evaluation), x4 clients",
    "C13": "CFG dominance for the handshake order + decision-table abstract interpretation of the frame handler + installed-library signature oracle",
}
NA = {}
checks, na = [], []
for p in sorted(PROPS):
    specs = rules_for(p, "thorough")
    if not specs:
        na.append({"property_id": p, "reason": NA.get(p, "no static rule built for this property yet")})
        continue
    checks.append({
        "property_id": p,
        "quick_cmd": f"/venv/bin/python check.py --property {p} --tier quick",
        "thorough_cmd": f"/venv/bin/python check.py --property {p} --tier thorough",
        "evidence_file": f"/verif/evidence/{p}.json",
        "replay_cmd_template": "/venv/bin/python check.py --replay {path}",
        "engine": "sa",
        "level_claimed": {
            "category": "other",
            "text": PROPS[p]["explanation"] + " NOT decided: " + PROPS[p]["not_decided"] + ".",
            "design_ref": f"DESIGN.md section 4 {p}",
        },
        "level_note": "Trusted: CPython ast; the analyser in /verif/sa; " + "; ".join(PROPS[p]["assumptions"][1:]) + ". Rules: " + ", ".join(s.rid for s in specs),
        "technique": "static analysis: " + TECH.get(p, "custom AST/CFG/provenance rules over the repository source"),
    })
m = {
    "version": 1,
    "setup_cmd": "/venv/bin/python -c \"import ast, sys; sys.exit(0 if sys.version_info[:2] >= (3, 9) else 1)\"",
    "hooks": {
        "guard": "ARIADNE_CODEGEN_VERIF",
        "enable": "none: the analyser reads /repo's sources and needs no hook; the guard is declared but no commit uses it",
        "baseline_off_cmd": "cd /repo && /venv/bin/python -m pytest -ra -q -p no:cacheprovider --timeout=900 --continue-on-collection-errors",
        "source_commits": [],
        "add_only": True,
    },
    "engines": [{"name": "sa", "path": "/verif/sa", "serves_properties": [c["property_id"] for c in checks],
                 "kind_free_text": "repository-specific static analyser: ast program model, statement CFG with dominators, shape extraction (abstract interpretation of the AST-building generator), decision-table abstract interpreter, sibling normaliser, installed-library oracles"}],
    "checks": checks,
    "not_applicable": na,
    "notes": "All checks are pure static analysis of /repo's working tree with /venv/bin/python (stdlib only). exit 0 held / known findings only; 1 VIOLATION; 2 ANALYSIS-ERROR. Genuine defects repaired by 'fix:' commits and recorded ones are listed in /verif/known_findings.json.",
}
json.dump(m, open(os.path.join(ROOT, "MANIFEST.json"), "w"), indent=1)
print("checks:", [c["property_id"] for c in checks], "na:", [x["property_id"] for x in na])
