#!/venv/bin/python
"""Robustness sweep (development): for every function of the package build a benign variant in which
all of its local variables are renamed, analyse it in memory, and report rules that newly fire or error."""
import ast, os, sys, json, multiprocessing as mp
sys.dont_write_bytecode = True
ROOT = os.path.dirname(os.path.dirname(os.path.abspath(__file__)))
sys.path.insert(0, ROOT)
from sa.model import Repo
from sa import report
from sa.props import PROPS
import sa.rules  # noqa

def locals_of(fn):
    params = {a.arg for a in fn.args.posonlyargs + fn.args.args + fn.args.kwonlyargs}
    if fn.args.vararg: params.add(fn.args.vararg.arg)
    if fn.args.kwarg: params.add(fn.args.kwarg.arg)
    names = set()
    for n in ast.walk(fn):
        if isinstance(n, ast.Name) and isinstance(n.ctx, ast.Store):
            names.add(n.id)
        if isinstance(n, ast.ExceptHandler) and n.name:
            names.add(n.name)
    glob = set()
    for n in ast.walk(fn):
        if isinstance(n, (ast.Global, ast.Nonlocal)):
            glob |= set(n.names)
    # names also bound as parameters of nested functions are left alone
    for n in ast.walk(fn):
        if n is not fn and isinstance(n, (ast.FunctionDef, ast.AsyncFunctionDef, ast.Lambda)):
            a = n.args
            for x in a.posonlyargs + a.args + a.kwonlyargs:
                names.discard(x.arg)
    return names - params - glob - {"_"}

class Ren(ast.NodeTransformer):
    def __init__(self, names): self.names = names
    def visit_Name(self, n):
        if n.id in self.names: n.id = n.id + "_rn"
        return n
    def visit_ExceptHandler(self, n):
        if n.name in self.names: n.name = n.name + "_rn"
        self.generic_visit(n); return n

def variants(repo):
    out = []
    for m in repo.modules.values():
        top = [n for n in ast.walk(m.tree) if isinstance(n, (ast.FunctionDef, ast.AsyncFunctionDef))]
        # only outermost functions (nested ones are renamed with their parent)
        nested = set()
        for f in top:
            for n in ast.walk(f):
                if n is not f and isinstance(n, (ast.FunctionDef, ast.AsyncFunctionDef)):
                    nested.add(id(n))
        for f in top:
            if id(f) in nested: continue
            names = locals_of(f)
            if not names: continue
            out.append((m.relpath, f.name, f.lineno, sorted(names)))
    return out

BASE = None
def work(v):
    rel, fname, lineno, names = v
    repo = Repo()
    mod = [m for m in repo.modules.values() if m.relpath == rel][0]
    tree = ast.parse(mod.source)
    for f in ast.walk(tree):
        if isinstance(f, (ast.FunctionDef, ast.AsyncFunctionDef)) and f.name == fname and f.lineno == lineno:
            Ren(set(names)).visit(f)
    src = ast.unparse(tree)
    r2 = Repo(overrides={rel: src})
    res = []
    for p in sorted(PROPS):
        rr = report.run_property(r2, p, "quick")
        new = sorted({f"{f.rule}|{f.key.split('::')[-1][:60]}|{f.msg[:160]}" for f in rr.violations})
        errs = sorted({e[:200] for e in rr.errors})
        if new or errs:
            res.append((p, new, errs))
    return (rel, fname, lineno, res)

if __name__ == "__main__":
    repo = Repo()
    vs = variants(repo)
    # baseline: unmodified but unparsed (to discount unparse effects)
    print(len(vs), "variants")
    with mp.Pool(14) as pool:
        results = pool.map(work, vs, chunksize=4)
    bad = [r for r in results if r[3]]
    rules = {}
    for rel, fname, lineno, res in bad:
        for p, new, errs in res:
            for x in new + errs:
                rules.setdefault(x.split("|")[0].split(":")[0], []).append(f"{rel.split('/')[-1]}:{fname} :: {x}")
    for k in sorted(rules):
        print(k)
        for x in sorted(set(rules[k])):
            print("    ", x)
    print(len(bad), "of", len(results), "variants trip a rule;", len(rules), "rules affected")
