#!/venv/bin/python
"""emit markdown tables for DESIGN.md: rule catalogue per property, known findings, seeded changes vs rules"""
import json, os, sys, glob, subprocess, shutil, tempfile
sys.dont_write_bytecode = True
ROOT = os.path.dirname(os.path.dirname(os.path.abspath(__file__)))
sys.path.insert(0, ROOT)
from sa.report import RULES, rules_for
from sa.props import PROPS
import sa.rules  # noqa
what = sys.argv[1]
if what == "rules":
    for p in sorted(PROPS):
        print(f"\n**{p}** — own rules: " + ", ".join(s.rid for s in rules_for(p, "quick") if s.prop == p) + "; shared: " + (", ".join(s.rid for s in rules_for(p, "quick") if s.prop != p) or "-"))
        print("\n| Rule | Decides |\n|---|---|")
        for s in rules_for(p, "quick"):
            if s.prop == p:
                print(f"| {s.rid} | {s.title} |")
elif what == "known":
    kf = json.load(open(os.path.join(ROOT, "known_findings.json")))
    print("| id | property (also) | rule | construct | witness |\n|---|---|---|---|---|")
    for k in kf["findings"]:
        print(f"| {k['id']} | {k['property']} ({','.join(k.get('also', [])) or '-'}) | {k['rule']} | `{k['key'].split('::', 1)[-1][:90]}` | {k['witness'][:220]} |")
elif what == "seeded":
    print("| seeded change | property | what it does (from the author's notes) | caught by |\n|---|---|---|---|")
    for d in sorted(glob.glob(os.path.join(ROOT, "seeded", "*"))):
        meta = json.load(open(os.path.join(d, "meta.json")))
        print(f"| {meta['id']} | {meta['property']} | {meta.get('summary','')[:200]} | {', '.join(meta.get('caught_by', [])) or ('ANALYSIS-ERROR (exit 2: the rewritten function is not recognised)' if meta.get('check_exit_code_on_patched_tree') == 2 else 'NOT CAUGHT')} |")
