#!/venv/bin/python
"""(re)generate sa/localnames.json from /repo's current tree (development helper; run on the pinned tree only)"""
import ast, json, os, sys
sys.dont_write_bytecode = True
ROOT = os.path.dirname(os.path.dirname(os.path.abspath(__file__)))
sys.path.insert(0, ROOT)
from sa.localnames import describe, outer_functions, TABLE_PATH, _param_list, private_attributes
from sa.normalise import normalise_tree
out = {}
base = "/repo"
for dp, dn, fns in os.walk(os.path.join(base, "ariadne_codegen")):
    for f in sorted(fns):
        if not f.endswith(".py"):
            continue
        p = os.path.join(dp, f)
        rel = os.path.relpath(p, base)
        tree = ast.parse(open(p).read())
        normalise_tree(tree)  # the table describes the normal form the analyser works on
        ent = {}
        for q, fn in outer_functions(tree):
            e = {"params": _param_list(fn)}
            d = describe(fn)
            if d["names"] or d.get("nested"):
                e.update(d)
            ent[q] = e
        for st in tree.body:
            if isinstance(st, ast.ClassDef):
                attrs = private_attributes(st)
                if attrs:
                    ent["<attrs>:" + st.name] = attrs
        if ent:
            out[rel] = ent
json.dump(out, open(TABLE_PATH, "w"), indent=0, sort_keys=True)
print(sum(len(v) for v in out.values()), "functions recorded")
