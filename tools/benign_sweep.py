#!/venv/bin/python
"""Robustness sweep (development): apply one behaviour-preserving transformation to one function at a time
(in memory) and report rules that newly fire or error.  usage: benign_sweep.py <transform>"""
import ast, os, sys, copy, multiprocessing as mp
sys.dont_write_bytecode = True
ROOT = os.path.dirname(os.path.dirname(os.path.abspath(__file__)))
sys.path.insert(0, ROOT)
from sa.model import Repo
from sa import report
from sa.props import PROPS
import sa.rules  # noqa

def t_docstring(fn):
    if fn.body and isinstance(fn.body[0], ast.Expr) and isinstance(fn.body[0].value, ast.Constant) and isinstance(fn.body[0].value.value, str):
        return False
    fn.body.insert(0, ast.Expr(ast.Constant("Documentation added by a refactor.")))
    return True

def t_noop(fn):
    i = 1 if fn.body and isinstance(fn.body[0], ast.Expr) and isinstance(fn.body[0].value, ast.Constant) else 0
    fn.body.insert(i, ast.Expr(ast.Call(func=ast.Attribute(value=ast.Name(id="logger", ctx=ast.Load()), attr="debug", ctx=ast.Load()), args=[ast.Constant("entering")], keywords=[])))
    return True

def t_tempreturn(fn):
    done = False
    class T(ast.NodeTransformer):
        def visit_FunctionDef(self, n):
            return n if n is not fn else self.generic_visit(n)
        visit_AsyncFunctionDef = visit_FunctionDef
        def visit_Lambda(self, n): return n
    def rec(body):
        nonlocal done
        out = []
        for st in body:
            if isinstance(st, ast.Return) and st.value is not None and not isinstance(st.value, (ast.Name, ast.Constant)) and not done:
                out.append(ast.Assign(targets=[ast.Name(id="result_tmp", ctx=ast.Store())], value=st.value, lineno=st.lineno))
                out.append(ast.Return(value=ast.Name(id="result_tmp", ctx=ast.Load())))
                done = True
            else:
                for f in ("body", "orelse", "finalbody"):
                    b = getattr(st, f, None)
                    if isinstance(b, list) and b and isinstance(b[0], ast.stmt) and not isinstance(st, (ast.FunctionDef, ast.AsyncFunctionDef, ast.ClassDef)):
                        setattr(st, f, rec(b))
                out.append(st)
        return out
    fn.body = rec(fn.body)
    return done

def t_else(fn):
    """if c: return X ; rest  ->  if c: return X else: rest   (top level of the function only)"""
    for i, st in enumerate(fn.body):
        if isinstance(st, ast.If) and not st.orelse and st.body and isinstance(st.body[-1], (ast.Return, ast.Raise)) and i + 1 < len(fn.body):
            st.orelse = fn.body[i + 1:]
            fn.body = fn.body[: i + 1]
            return True
    return False

def t_annassign(fn):
    for st in ast.walk(fn):
        pass
    done = False
    def rec(body):
        nonlocal done
        out = []
        for st in body:
            if isinstance(st, ast.Assign) and len(st.targets) == 1 and isinstance(st.targets[0], ast.Name) and not done:
                out.append(ast.AnnAssign(target=st.targets[0], annotation=ast.Name(id="Any", ctx=ast.Load()), value=st.value, simple=1))
                done = True
            elif isinstance(st, ast.AnnAssign) and isinstance(st.target, ast.Name) and st.value is not None and not done:
                out.append(ast.Assign(targets=[st.target], value=st.value, lineno=st.lineno))
                done = True
            else:
                out.append(st)
        return out
    fn.body = rec(fn.body)
    return done

def _own_stmts(fn):
    """statement lists of fn, not descending into nested defs"""
    out = []
    def rec(node):
        for fld in ("body", "orelse", "finalbody"):
            b = getattr(node, fld, None)
            if isinstance(b, list) and b and isinstance(b[0], ast.stmt):
                out.append(b)
                for st in b:
                    if not isinstance(st, (ast.FunctionDef, ast.AsyncFunctionDef, ast.ClassDef)):
                        rec(st)
        for h in getattr(node, "handlers", []) or []:
            out.append(h.body)
            for st in h.body:
                rec(st)
    rec(fn)
    return out

def t_invert(fn):
    """if c: A else: B  ->  if not c: B else: A   (first if/else with a real else)"""
    for b in _own_stmts(fn):
        for st in b:
            if isinstance(st, ast.If) and st.orelse and not (len(st.orelse) == 1 and isinstance(st.orelse[0], ast.If)):
                st.test = st.test.operand if isinstance(st.test, ast.UnaryOp) and isinstance(st.test.op, ast.Not) else ast.UnaryOp(op=ast.Not(), operand=st.test)
                st.body, st.orelse = st.orelse, st.body
                return True
    return False

def t_ifexp(fn):
    """x = a if c else b  ->  if c: x = a else: x = b"""
    for b in _own_stmts(fn):
        for i, st in enumerate(b):
            if isinstance(st, ast.Assign) and len(st.targets) == 1 and isinstance(st.targets[0], ast.Name) and isinstance(st.value, ast.IfExp):
                v = st.value
                b[i] = ast.If(test=v.test, body=[ast.Assign(targets=[st.targets[0]], value=v.body, lineno=st.lineno)],
                              orelse=[ast.Assign(targets=[ast.Name(id=st.targets[0].id, ctx=ast.Store())], value=v.orelse, lineno=st.lineno)])
                return True
    return False

def t_splitand(fn):
    """if a and b: X (no else)  ->  if a: if b: X"""
    for b in _own_stmts(fn):
        for st in b:
            if isinstance(st, ast.If) and not st.orelse and isinstance(st.test, ast.BoolOp) and isinstance(st.test.op, ast.And) and len(st.test.values) == 2:
                a, c = st.test.values
                st.test = a
                st.body = [ast.If(test=c, body=st.body, orelse=[])]
                return True
    return False

def t_guard(fn):
    """if c: BODY (last statement of the function, no else, function returns None)  ->  if not c: return ; BODY"""
    if any(isinstance(n, ast.Return) and n.value is not None for n in ast.walk(fn)) or any(isinstance(n, (ast.Yield, ast.YieldFrom)) for n in ast.walk(fn)):
        return False
    st = fn.body[-1]
    if isinstance(st, ast.If) and not st.orelse and len(fn.body) >= 1:
        neg = st.test.operand if isinstance(st.test, ast.UnaryOp) and isinstance(st.test.op, ast.Not) else ast.UnaryOp(op=ast.Not(), operand=st.test)
        fn.body[-1:] = [ast.If(test=neg, body=[ast.Return(value=None)], orelse=[])] + st.body
        return True
    return False

def t_kwonly_call(fn):
    """self.method(a, b) -> unchanged args but the LAST positional argument of the first call to a same-module function is
    passed by keyword (needs the callee's parameter name: resolved through SIGS filled by the driver)"""
    for n in ast.walk(fn):
        if isinstance(n, ast.Call) and n.args and not any(isinstance(a, ast.Starred) for a in n.args):
            name = n.func.attr if isinstance(n.func, ast.Attribute) and isinstance(n.func.value, ast.Name) and n.func.value.id == "self" else n.func.id if isinstance(n.func, ast.Name) else None
            sig = SIGS.get(name)
            if not sig or len(sig) != 1:
                continue
            params = list(sig)[0]
            if isinstance(n.func, ast.Attribute):
                params = params[1:] if params and params[0] in ("self", "cls") else params
            if len(n.args) <= len(params) and params[len(n.args) - 1] not in [k.arg for k in n.keywords]:
                pname = params[len(n.args) - 1]
                val = n.args.pop()
                n.keywords.insert(0, ast.keyword(arg=pname, value=val))
                return True
    return False

SIGS = {}

def t_kwargs(fn):
    """f(a, b) -> f(a, b) with the last positional argument of self.method calls turned into a keyword - needs signatures; skipped"""
    return False

def t_demorgan(fn):
    """if a and b  ->  if not (not a or not b)   (first boolean test of the function)"""
    for b in _own_stmts(fn):
        for st in b:
            if isinstance(st, (ast.If, ast.While)) and isinstance(st.test, ast.BoolOp):
                flipped = ast.Or() if isinstance(st.test.op, ast.And) else ast.And()
                st.test = ast.UnaryOp(op=ast.Not(), operand=ast.BoolOp(op=flipped, values=[ast.UnaryOp(op=ast.Not(), operand=v) for v in st.test.values]))
                return True
    return False

def t_yoda(fn):
    """x == CONST -> CONST == x  (every == / != comparison against a constant or an upper-case name)"""
    done = False
    for n in ast.walk(fn):
        if isinstance(n, ast.Compare) and len(n.ops) == 1 and isinstance(n.ops[0], (ast.Eq, ast.NotEq)):
            r = n.comparators[0]
            if isinstance(r, ast.Constant) or (isinstance(r, ast.Name) and r.id.isupper()):
                n.left, n.comparators = r, [n.left]
                done = True
    return done

def t_concat(fn):
    """f"{a}.py" -> a + ".py"   (f-strings made of plain names / attributes and literals, first one of the function)"""
    class R(ast.NodeTransformer):
        done = False
        def visit_JoinedStr(self, n):
            if self.done or len(n.values) < 2:
                return n
            parts = []
            for v in n.values:
                if isinstance(v, ast.Constant):
                    parts.append(v)
                elif isinstance(v, ast.FormattedValue) and v.conversion == -1 and v.format_spec is None and isinstance(v.value, (ast.Name, ast.Attribute)):
                    parts.append(ast.Call(func=ast.Name(id="str", ctx=ast.Load()), args=[v.value], keywords=[]))
                else:
                    return n
            e = parts[0]
            for q in parts[1:]:
                e = ast.BinOp(left=e, op=ast.Add(), right=q)
            self.done = True
            return e
    r = R()
    r.visit(fn)
    return r.done

def t_mapcomp(fn):
    """[f(x) for x in xs] -> list(map(f, xs))"""
    class R(ast.NodeTransformer):
        done = False
        def visit_ListComp(self, n):
            self.generic_visit(n)
            if len(n.generators) == 1 and not n.generators[0].ifs and isinstance(n.generators[0].target, ast.Name) and isinstance(n.elt, ast.Call) and len(n.elt.args) == 1 and not n.elt.keywords \
                    and isinstance(n.elt.args[0], ast.Name) and n.elt.args[0].id == n.generators[0].target.id and isinstance(n.elt.func, (ast.Name, ast.Attribute)) \
                    and not any(isinstance(x, ast.Name) and x.id == n.generators[0].target.id for x in ast.walk(n.elt.func)):
                self.done = True
                return ast.Call(func=ast.Name(id="list", ctx=ast.Load()), args=[ast.Call(func=ast.Name(id="map", ctx=ast.Load()), args=[n.elt.func, n.generators[0].iter], keywords=[])], keywords=[])
            return n
    r = R()
    r.visit(fn)
    return r.done

def t_augassign(fn):
    """x = x + y -> x += y  and back  (names only)"""
    done = False
    for b in _own_stmts(fn):
        for i, st in enumerate(b):
            if isinstance(st, ast.AugAssign) and isinstance(st.target, ast.Name) and isinstance(st.op, ast.Add):
                b[i] = ast.Assign(targets=[ast.Name(id=st.target.id, ctx=ast.Store())], value=ast.BinOp(left=ast.Name(id=st.target.id, ctx=ast.Load()), op=ast.Add(), right=st.value))
                done = True
            elif isinstance(st, ast.Assign) and len(st.targets) == 1 and isinstance(st.targets[0], ast.Name) and isinstance(st.value, ast.BinOp) and isinstance(st.value.op, ast.Add) \
                    and isinstance(st.value.left, ast.Name) and st.value.left.id == st.targets[0].id:
                b[i] = ast.AugAssign(target=ast.Name(id=st.targets[0].id, ctx=ast.Store()), op=ast.Add(), value=st.value.right)
                done = True
    return done

T = {"demorgan": t_demorgan, "yoda": t_yoda, "concat": t_concat, "mapcomp": t_mapcomp, "augassign": t_augassign, "docstring": t_docstring, "noop": t_noop, "tempreturn": t_tempreturn, "else": t_else, "annassign": t_annassign,
     "invert": t_invert, "ifexp": t_ifexp, "splitand": t_splitand, "guard": t_guard, "kwcall": t_kwonly_call}

def work(v):
    rel, fname, lineno, tname = v
    repo = Repo()
    mod = [m for m in repo.modules.values() if m.relpath == rel][0]
    if not SIGS:
        for m in repo.modules.values():
            for f in ast.walk(ast.parse(m.source)):
                if isinstance(f, (ast.FunctionDef, ast.AsyncFunctionDef)) and not f.args.vararg:
                    SIGS.setdefault(f.name, set()).add(tuple(a.arg for a in f.args.posonlyargs + f.args.args))
    tree = ast.parse(mod.source)
    ok = False
    for f in ast.walk(tree):
        if isinstance(f, (ast.FunctionDef, ast.AsyncFunctionDef)) and f.name == fname and f.lineno == lineno:
            ok = T[tname](f)
    if not ok:
        return None
    ast.fix_missing_locations(tree)
    src = ast.unparse(tree)
    try:
        ast.parse(src)
    except SyntaxError:
        return None
    r2 = Repo(overrides={rel: src})
    res = []
    for p in sorted(PROPS):
        rr = report.run_property(r2, p, "quick")
        new = sorted({f"{f.rule}|{f.key.split('::')[-1][:50]}|{f.msg[:120]}" for f in rr.violations})
        errs = sorted({e[:160] for e in rr.errors})
        if new or errs:
            res.append((p, new, errs))
    return (rel, fname, lineno, res)

if __name__ == "__main__":
    tname = sys.argv[1]
    repo = Repo()
    vs = []
    for m in repo.modules.values():
        for f in ast.walk(m.tree):
            if isinstance(f, (ast.FunctionDef, ast.AsyncFunctionDef)):
                vs.append((m.relpath, f.name, f.lineno, tname))
    with mp.Pool(14) as pool:
        results = [r for r in pool.map(work, vs, chunksize=4) if r is not None]
    bad = [r for r in results if r[3]]
    rules = {}
    for rel, fname, lineno, res in bad:
        for p, new, errs in res:
            for x in new + errs:
                rules.setdefault(x.split("|")[0].split(":")[0], []).append(f"{rel.split('/')[-1]}:{fname} :: {x}")
    for k in sorted(rules):
        print(k)
        for x in sorted(set(rules[k]))[:6]:
            print("    ", x[:260])
    print(tname, ":", len(bad), "of", len(results), "variants trip a rule;", len(rules), "rules affected")
