#!/venv/bin/python
"""(re)generate sa/sharing.json: a rule is also run for every property that is anchored (properties.jsonl, anchors.files) in
one of the source files the rule inspects on the pinned tree.  Development helper; run on the pinned tree only."""
import json, os, sys, re
sys.dont_write_bytecode = True
ROOT = os.path.dirname(os.path.dirname(os.path.abspath(__file__)))
sys.path.insert(0, ROOT)
from sa.model import Repo
from sa import report
from sa.report import RULES, Ctx
import sa.rules  # noqa
repo = Repo("/repo")
anchors = {}
for l in open(os.path.join(ROOT, "properties.jsonl")):
    d = json.loads(l)
    files = set()
    for f in d.get("anchors", {}).get("files", []):
        if isinstance(f, str):
            files.add(f)
    for mech in d.get("anchors", {}).get("mechanism", []) if isinstance(d.get("anchors", {}).get("mechanism"), list) else []:
        w = mech.get("where", "") if isinstance(mech, dict) else ""
        for m in re.findall(r"ariadne_codegen/[\w/\*\.]+\.py", w):
            files.add(m)
    anchors[d["id"]] = files
def match(f, pats):
    import fnmatch
    return any(fnmatch.fnmatch(f, p) for p in pats)
# properties whose statements overlap: a necessary condition of one is a necessary condition of the other where they are
# anchored in the same source file
GROUPS = [
    {"C01", "C05", "C07", "C08"},          # result models: shape, strictness, scalars, fragments as base types
    {"C03", "C06", "C07", "C19"},          # input models / arguments / what is sent
    {"C04", "C09", "C08"},                 # the package loads; pruning; fragments module
    {"C11", "C12", "C13", "C03"},          # runtime clients
    {"C18", "C01", "C03", "C06"},          # names
    {"C02", "C15"},                        # the document; what plugins may change
]
EVERYTHING_LOADS = {"C01", "C03", "C05", "C06", "C07", "C08", "C09", "C18"}  # C04 = "every valid input generates and loads"


def related(p, q):
    if any(p in g and q in g for g in GROUPS):
        return True
    if p == "C04" and q in EVERYTHING_LOADS:
        return True
    return False


share = {}
for rid, spec in sorted(RULES.items()):
    ctx = Ctx(repo, spec, spec.prop, "quick")
    try:
        spec.fn(ctx)
    except Exception as exc:
        print("rule failed", rid, exc)
        continue
    files = {i["loc"].split(":")[0] for i in ctx.instances if i.get("loc")}
    files = {f for f in files if f.startswith("ariadne_codegen/")}
    props = sorted(p for p, pats in anchors.items() if p != spec.prop and p not in spec.also and any(match(f, pats) for f in files) and related(p, spec.prop))
    if props:
        share[rid] = props
json.dump(share, open(os.path.join(ROOT, "sa", "sharing.json"), "w"), indent=0, sort_keys=True)
print(len(share), "rules shared;", sum(len(v) for v in share.values()), "extra (rule, property) pairs")
for p in sorted(anchors):
    print(p, len([r for r, ps in share.items() if p in ps]), "extra rules")
