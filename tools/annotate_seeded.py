#!/venv/bin/python
"""Development helper: for every seeded regression, apply its patch to a scratch copy of /repo's package under /tmp,
run the target property's check there and record in meta.json which rules caught it (caught_by), the exit code and a
one-paragraph summary taken from the author's NOTES.md.  The scratch copy is removed straight afterwards."""
import glob, json, os, re, shutil, subprocess, sys, tempfile
from multiprocessing import Pool
ROOT = os.path.dirname(os.path.dirname(os.path.abspath(__file__)))


def summary_of(d, meta):
    notes = os.path.join(d, "NOTES.md")
    if not os.path.exists(notes):
        return meta.get("summary", "")
    t = open(notes).read()
    n = meta["id"].rsplit("-", 1)[-1]
    m = re.search(r"^#+\s*Change\s*%s\b(.*?)(?=^#+\s*Change\s*\d|\Z)" % n, t, re.S | re.M | re.I)
    if not m:  # mutation rounds: "## mutant1 - file, function", "### Mutant 1", "**mutant1.diff**", "- `mutant1.diff` ..."
        m = re.search(r"^(?:#+\s*|\*\*|[-*]\s*`?|\d+\.\s*`?)?mutant\s*%s\b(.*?)(?=^(?:#+\s*|\*\*|[-*]\s*`?|\d+\.\s*`?)?mutant\s*\d|\Z)" % n, t, re.S | re.M | re.I)
    body = (m.group(1) if m else t)
    body = re.sub(r"\s+", " ", body).strip(" -—:#*")
    return body[:260]


def work(d):
    meta_p = os.path.join(d, "meta.json")
    meta = json.load(open(meta_p))
    tmp = tempfile.mkdtemp(prefix="seedann_")
    try:
        shutil.copytree("/repo/ariadne_codegen", os.path.join(tmp, "ariadne_codegen"))
        p = subprocess.run(["patch", "-p1", "-s", "-i", os.path.join(d, "patch.diff")], cwd=tmp, capture_output=True, text=True)
        if p.returncode != 0:
            return meta["id"], "PATCH-FAILED", []
        r = subprocess.run(["/venv/bin/python", os.path.join(ROOT, "check.py"), "--repo", tmp, "-p", meta["property"], "--no-evidence"], capture_output=True, text=True)
        rules = sorted({l.split()[1] for l in r.stdout.splitlines() if l.strip().startswith("violation:")})
        meta["caught_by"] = rules
        meta["check_exit_code_on_patched_tree"] = r.returncode
        meta["ran"] = f"check.py --repo <scratch copy with patch> -p {meta['property']}"
        if not meta.get("summary") or meta["summary"].startswith("see NOTES"):
            meta["summary"] = summary_of(d, meta)
        json.dump(meta, open(meta_p, "w"), indent=1)
        open(meta_p, "a").write("\n")
        return meta["id"], r.returncode, rules
    finally:
        shutil.rmtree(tmp, ignore_errors=True)


if __name__ == "__main__":
    only = sys.argv[1:]
    ds = [d for d in sorted(glob.glob(os.path.join(ROOT, "seeded", "*"))) if os.path.isdir(d) and (not only or any(o in os.path.basename(d) for o in only))]
    with Pool(8) as pool:
        for sid, rc, rules in pool.map(work, ds):
            print(f"{sid:14} rc={rc} {', '.join(rules)}")
