#!/venv/bin/python
"""Run the pinned baseline test command in a repo directory (default /repo) and
compare with /root/.vp/BASELINE.json stable_pass. Development helper, not a check."""
import json, subprocess, sys, tempfile, os, xml.etree.ElementTree as ET
repo = sys.argv[1] if len(sys.argv) > 1 else "/repo"
base = json.load(open("/root/.vp/BASELINE.json"))
with tempfile.TemporaryDirectory() as d:
    x = os.path.join(d, "j.xml")
    p = subprocess.run(["/venv/bin/python", "-m", "pytest", "-q", "-p", "no:cacheprovider",
                        "--timeout=900", "--continue-on-collection-errors", "-n", os.environ.get("BASELINE_N", "12"),
                        f"--junitxml={x}"], cwd=repo, capture_output=True, text=True)
    passed = set()
    for tc in ET.parse(x).getroot().iter("testcase"):
        if not any(c.tag in ("failure", "error", "skipped") for c in tc):
            passed.add(f"{tc.get('classname')}::{tc.get('name')}".replace(os.path.abspath(repo), "/repo"))
missing = [t for t in base["stable_pass"] if t not in passed]
print(f"passed={len(passed)} baseline={len(base['stable_pass'])} baseline_missing={len(missing)}")
for m in missing[:20]:
    print("  MISSING", m)
print(p.stdout.strip().splitlines()[-1])
sys.exit(1 if missing else 0)
