#!/venv/bin/python
"""development helper: run the self-test of given properties and print the result"""
import sys, os, json
sys.dont_write_bytecode = True
sys.path.insert(0, os.path.dirname(os.path.dirname(os.path.abspath(__file__))))
from sa.model import Repo
import sa.rules
from sa.selftest import run_selftest
repo = Repo()
for p in sys.argv[1:]:
    st = run_selftest(p, repo)
    print(p, json.dumps(st.summary, indent=1))
