#!/venv/bin/python
"""(re)generate sa/defaults.json from /repo's current tree: the default value of every parameter that has one (development
helper; run on the pinned tree only).  The table is data for rule C04.R16, which decides on the CURRENT tree whether a changed
default can reach a call site that relies on it."""
import ast, json, os, sys
sys.dont_write_bytecode = True
ROOT = os.path.dirname(os.path.dirname(os.path.abspath(__file__)))
sys.path.insert(0, ROOT)
from sa.model import Repo, norm
repo = Repo("/repo")
out = {}
for fi in repo.all_functions():
    a = fi.node.args
    pos = a.posonlyargs + a.args
    d = {}
    for p, dv in zip(pos[len(pos) - len(a.defaults):], a.defaults):
        d[p.arg] = str(norm(dv))
    for p, dv in zip(a.kwonlyargs, a.kw_defaults):
        if dv is not None:
            d[p.arg] = str(norm(dv))
    if d:
        out[fi.key] = d
json.dump(out, open(os.path.join(ROOT, "sa", "defaults.json"), "w"), indent=0, sort_keys=True)
print(len(out), "functions with defaults;", sum(len(v) for v in out.values()), "defaults recorded")
