#!/venv/bin/python
"""Development helper: confirm a sub-agent's regression (patch + demo) in a scratch worktree of /repo and,
if confirmed, store it under /verif/seeded/<id>/.  usage: ingest_seed.py C12 [1 2]"""
import json, os, re, shutil, subprocess, sys, glob
ROOT = os.path.dirname(os.path.dirname(os.path.abspath(__file__)))
prop = sys.argv[1]
nums = sys.argv[2:] or ["1", "2"]
root = os.environ.get("SEED_ROOT", "/tmp/seed")
tag = os.environ.get("SEED_TAG", "")
src = f"{root}/{prop}"
wt = f"/tmp/ingest_{prop}"
subprocess.run(["git", "-C", "/repo", "worktree", "remove", "--force", wt], capture_output=True)
subprocess.run(["git", "-C", "/repo", "worktree", "add", "-q", "--detach", wt, "HEAD"], check=True)
def run_demo(demo):
    dst = os.path.join(wt, os.path.basename(demo))
    # demos sometimes name their author's worktree: point them at the scratch worktree under test
    import re as _re
    txt = open(demo).read()
    txt = _re.sub(r"/tmp/wt\d*/C\d\d", wt, txt)
    open(dst, "w").write(txt)
    if os.path.basename(demo).startswith("test_"):
        cmd = ["/venv/bin/python", "-m", "pytest", "-q", "-x", "-p", "no:cacheprovider", os.path.basename(demo)]
    else:
        cmd = ["/venv/bin/python", os.path.basename(demo)]
    r = subprocess.run(cmd, cwd=wt, capture_output=True, text=True, timeout=600, env={**os.environ, "WT": wt})
    os.remove(dst)
    return r.returncode, (r.stdout + r.stderr)[-400:]
try:
    for n in nums:
        diff = os.path.join(src, f"change{n}.diff")
        demos = glob.glob(os.path.join(src, f"demo{n}.py")) + glob.glob(os.path.join(src, f"test_demo{n}.py"))
        if not os.path.exists(diff) or not demos:
            print(prop, n, "MISSING deliverable"); continue
        demo = demos[0]
        subprocess.run(["git", "-C", wt, "checkout", "-q", "--", "."]); subprocess.run(["git", "-C", wt, "clean", "-fdq"])
        rc0, out0 = run_demo(demo)
        a = subprocess.run(["git", "-C", wt, "apply", diff], capture_output=True, text=True)
        if a.returncode != 0:
            print(prop, n, "PATCH DOES NOT APPLY", a.stderr[-200:]); continue
        touched = subprocess.run(["git", "-C", wt, "diff", "--name-only"], capture_output=True, text=True).stdout.split()
        rc1, out1 = run_demo(demo)
        b = subprocess.run([os.path.join(ROOT, "tools", "baseline_check.py"), wt], capture_output=True, text=True)
        ok = rc0 == 0 and rc1 != 0 and b.returncode == 0 and all(t.startswith("ariadne_codegen/") for t in touched)
        print(prop, n, "CONFIRMED" if ok else "REJECTED", f"demo without={rc0} with={rc1} baseline_rc={b.returncode} touched={touched}")
        if not ok:
            print("   ", out0[-200:].replace("\n", " | ")); print("   ", out1[-200:].replace("\n", " | ")); print("   ", b.stdout[-200:])
            continue
        sid = f"{prop}-{tag}{n}"
        d = os.path.join(ROOT, "seeded", sid)
        os.makedirs(d, exist_ok=True)
        shutil.copy(diff, os.path.join(d, "patch.diff"))
        shutil.copy(demo, os.path.join(d, os.path.basename(demo)))
        notes = open(os.path.join(src, "NOTES.md")).read() if os.path.exists(os.path.join(src, "NOTES.md")) else ""
        open(os.path.join(d, "NOTES.md"), "w").write(notes)
        meta = {"id": sid, "property": prop, "source": "independent sub-agent given only the property text and a private worktree",
                "files_touched": touched, "demo": os.path.basename(demo),
                "needs_to_manifest": "see NOTES.md (section for change %s)" % n,
                "confirmed": {"demo_without_change_rc": rc0, "demo_with_change_rc": rc1, "baseline_676_tests_still_pass": True,
                              "how": "tools/ingest_seed.py: scratch git worktree of /repo HEAD under /tmp, git apply, demo run before/after, tools/baseline_check.py on the patched worktree"}}
        json.dump(meta, open(os.path.join(d, "meta.json"), "w"), indent=1)
finally:
    subprocess.run(["git", "-C", "/repo", "worktree", "remove", "--force", wt], capture_output=True)
