#!/venv/bin/python
"""Development helper: run the checks against every seeded regression in /verif/seeded/*/patch.diff.
Each patch is applied to a scratch copy of /repo's working tree under /tmp (never to /repo) and the copy is removed afterwards."""
import json, os, shutil, subprocess, sys, tempfile, glob
ROOT = os.path.dirname(os.path.dirname(os.path.abspath(__file__)))
only = sys.argv[1:]


def work(d):
    rows = []
    sid = os.path.basename(d)
    for _ in (0,):
        meta = json.load(open(os.path.join(d, "meta.json")))
        tmp = tempfile.mkdtemp(prefix="seedchk_")
        try:
            shutil.copytree("/repo/ariadne_codegen", os.path.join(tmp, "ariadne_codegen"))
            p = subprocess.run(["patch", "-p1", "-s", "-i", os.path.join(d, "patch.diff")], cwd=tmp, capture_output=True, text=True)
            if p.returncode != 0:
                rows.append((sid, meta["property"], "PATCH-FAILED", p.stdout[-200:] + p.stderr[-200:]))
                continue
            props = [meta["property"]] + [x for x in meta.get("also_breaks", [])]
            hit = []
            detail = ""
            for prop in props:
                r = subprocess.run(["/venv/bin/python", os.path.join(ROOT, "check.py"), "--repo", tmp, "-p", prop, "--no-evidence"], capture_output=True, text=True)
                if r.returncode == 1:
                    hit.append(prop)
                    v = [l.strip() for l in r.stdout.splitlines() if l.strip().startswith("violation:")]
                    detail += " | ".join(v[:2])
                elif r.returncode == 2:
                    detail += f" [{prop}: ANALYSIS-ERROR " + " ".join(l for l in r.stdout.splitlines() if "ANALYSIS-ERROR" in l)[:160] + "]"
            rows.append((sid, meta["property"], "DETECTED" if hit else "MISSED", detail[:260]))
        finally:
            shutil.rmtree(tmp, ignore_errors=True)
    return rows


from multiprocessing import Pool
dirs = [d for d in sorted(glob.glob(os.path.join(ROOT, "seeded", "*"))) if not only or any(os.path.basename(d).startswith(o) for o in only)]
with Pool(int(os.environ.get("VERIF_JOBS", "8"))) as pool:
    rows = [r for rs in pool.map(work, dirs, chunksize=1) for r in rs]
for r in rows:
    print("%-28s %-4s %-12s %s" % r)
print(f"{sum(1 for r in rows if r[2]=='DETECTED')}/{len(rows)} detected")
