#!/venv/bin/python
"""(re)generate sa/pinned.json from /repo's current tree: module-level scalar constants (name -> value), function
signatures and the list of functions per module.  Development helper; run on the pinned tree only."""
import ast, json, os, sys
sys.dont_write_bytecode = True
ROOT = os.path.dirname(os.path.dirname(os.path.abspath(__file__)))
sys.path.insert(0, ROOT)
from sa.model import Repo, NotConst
from sa.canon import PINNED_PATH, is_foldable
repo = Repo("/repo")
consts, conflicts = {}, set()
for m in repo.modules.values():
    for name in m.assigns:
        if name.startswith("__"):
            continue
        try:
            v = repo.const_of(m, name)
        except Exception:
            continue
        if not is_foldable(v):
            continue
        if name in consts and consts[name] != repr(v):
            conflicts.add(name)
        consts[name] = repr(v)
for c in conflicts:
    consts.pop(c)
sigs, funcs = {}, {}
for m in repo.modules.values():
    src_tree = ast.parse(m.source)
    for fi in m.functions.values():
        a = fi.node.args
        sig = {"pos": [x.arg for x in a.posonlyargs + a.args], "kwonly": [x.arg for x in a.kwonlyargs], "vararg": bool(a.vararg), "kwarg": bool(a.kwarg), "method": fi.cls is not None,
               "static": any(getattr(d, "id", "") == "staticmethod" for d in fi.node.decorator_list)}
        sigs.setdefault(fi.node.name, []).append(sig)
        funcs.setdefault(m.relpath, []).append(fi.qualname)
assigns = {m.relpath: sorted(m.assigns) for m in repo.modules.values() if m.assigns}
json.dump({"consts": consts, "sigs": sigs, "functions": funcs, "conflicts": sorted(conflicts), "assigns": assigns}, open(PINNED_PATH, "w"), indent=0, sort_keys=True)
print(len(consts), "constants,", len(sigs), "function names,", sum(len(v) for v in funcs.values()), "functions; conflicts:", sorted(conflicts))
