#!/opt/veriftools/pyvenv/bin/python
import json, sys, glob, jsonschema
m = json.load(open("/verif/MANIFEST.json")); jsonschema.validate(m, json.load(open("/root/.vp/MANIFEST.schema.json")))
es = json.load(open("/root/.vp/EVIDENCE.schema.json"))
for f in sorted(glob.glob("/verif/evidence/C??.json")):
    jsonschema.validate(json.load(open(f)), es)
print("manifest + evidence valid:", len(m["checks"]), "checks,", len(glob.glob("/verif/evidence/C??.json")), "evidence files")
