#!/venv/bin/python
"""CLI of the static analyser.

  check.py --property C07 [--tier quick|thorough] [--rule C07.R3] [--verbose]
  check.py --all [--tier ...]

exit 0  property held on every rule instance (known findings are printed, not failed)
exit 1  a violation not listed in known_findings.json (prints VIOLATION property=.. replay=..)
exit 2  ANALYSIS-ERROR: the analyser could not decide (anchor vanished, vacuous rule, crash)
"""
from __future__ import annotations

import argparse
import os
import sys
import traceback

sys.dont_write_bytecode = True
HERE = os.path.dirname(os.path.abspath(__file__))
sys.path.insert(0, HERE)


def main() -> int:
    ap = argparse.ArgumentParser()
    ap.add_argument("--property", "-p")
    ap.add_argument("--all", action="store_true")
    ap.add_argument("--tier", default=os.environ.get("VERIF_TIER") or "quick", choices=["quick", "thorough"])
    ap.add_argument("--rule")
    ap.add_argument("--verbose", "-v", action="store_true")
    ap.add_argument("--repo", default=None, help="analyse this tree instead of /repo (development only)")
    ap.add_argument("--no-evidence", action="store_true")
    ap.add_argument("--no-selftest", action="store_true")
    ap.add_argument("--replay", help="replay file written by a failing run: re-runs the rules it names, verbosely")
    args = ap.parse_args()
    if args.replay:
        import json
        rp = json.load(open(args.replay))
        args.property = rp["property"]
        args.verbose = True
        args.no_evidence = True
        replay_rules = sorted({v["rule"] for v in rp.get("violations", [])})
    else:
        replay_rules = None

    from sa import report
    from sa.model import AnalysisError, Repo
    from sa.props import PROPS
    import sa.rules  # noqa: F401  registers all rules

    try:
        repo = Repo(args.repo)
    except AnalysisError as exc:
        print(f"ANALYSIS-ERROR: {exc}")
        return 2
    props = sorted(PROPS) if args.all else [args.property]
    if not props or props == [None]:
        ap.error("--property or --all required")
    worst = 0
    for p in props:
        if p not in PROPS:
            print(f"ANALYSIS-ERROR: unknown property {p}")
            return 2
        if replay_rules:
            worst_r = 0
            for rr in replay_rules:
                res = report.run_property(repo, p, args.tier, rr)
                worst_r = max(worst_r, report.report(res, True))
            return worst_r
        res = report.run_property(repo, p, args.tier, args.rule)
        extra = {}
        if args.tier == "thorough" and not args.no_selftest and not res.violations and not res.errors and not args.rule:
            from sa.selftest import run_selftest
            st = run_selftest(p, repo)
            extra["selftest"] = st.summary
            res.errors += st.errors
            res.notes += st.notes
        if not args.no_evidence and not args.rule and args.repo is None:
            report.write_evidence(res, PROPS[p], repo, extra)
        code = report.report(res, args.verbose)
        if code == 1 or (code == 2 and worst == 0):
            worst = code
    return worst


if __name__ == "__main__":
    try:
        rc = main()
    except SystemExit:
        raise
    except Exception:
        print("ANALYSIS-ERROR: internal error in checker")
        traceback.print_exc()
        rc = 2
    sys.stdout.flush()
    sys.exit(rc)
